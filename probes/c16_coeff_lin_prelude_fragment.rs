// Fragment of the probe prelude used for the C16 typing contract (see DESIGN.md section 2, C16).
// Not compilable on its own: it was spliced between the Felt shim and the extracted evaluator.
// ---- C16 coefficient typing ----
#[verifier::external_body]
#[derive(Clone, Copy)]
pub struct Coeff { _x: [u64; 4] }
impl Coeff { pub uninterp spec fn pos(&self) -> int; }
#[verifier::external_body]
pub struct Lin { _x: [u64; 4] }
impl Lin {
    pub uninterp spec fn lo(&self) -> int;
    pub uninterp spec fn hi(&self) -> int;
    pub uninterp spec fn count(&self) -> int;
    pub uninterp spec fn czero(&self) -> bool;
}
impl MulSpecImpl<Felt> for Coeff {
    open spec fn obeys_mul_spec() -> bool { false }
    open spec fn mul_req(self, rhs: Felt) -> bool { true }
    open spec fn mul_spec(self, rhs: Felt) -> Lin { arbitrary() }
}
impl core::ops::Mul<Felt> for Coeff {
    type Output = Lin;
    #[verifier::external_body]
    fn mul(self, rhs: Felt) -> (r: Lin)
        ensures r.lo() == self.pos(), r.hi() == self.pos() + 1, r.count() == 1, r.czero()
    { unimplemented!() }
}
impl AddSpecImpl<Lin> for Lin {
    open spec fn obeys_add_spec() -> bool { false }
    open spec fn add_req(self, rhs: Lin) -> bool { self.hi() <= rhs.lo() }
    open spec fn add_spec(self, rhs: Lin) -> Lin { arbitrary() }
}
impl core::ops::Add<Lin> for Lin {
    type Output = Lin;
    #[verifier::external_body]
    fn add(self, rhs: Lin) -> (r: Lin)
        ensures r.lo() == self.lo(), r.hi() == rhs.hi(), r.count() == self.count() + rhs.count(), r.czero() == (self.czero() && rhs.czero())
    { unimplemented!() }
}
impl AddSpecImpl<Lin> for Felt {
    open spec fn obeys_add_spec() -> bool { false }
    open spec fn add_req(self, rhs: Lin) -> bool { true }
    open spec fn add_spec(self, rhs: Lin) -> Lin { arbitrary() }
}
impl core::ops::Add<Lin> for Felt {
    type Output = Lin;
    #[verifier::external_body]
    fn add(self, rhs: Lin) -> (r: Lin)
        ensures r.lo() == rhs.lo(), r.hi() == rhs.hi(), r.count() == rhs.count(), r.czero() == (self@ == 0 && rhs.czero())
    { unimplemented!() }
}
