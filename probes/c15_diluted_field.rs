use vstd::prelude::*;
use vstd::arithmetic::div_mod::*;
verus! {
pub spec const P: nat = 0x800000000000011000000000000000000000000000000000000000000000001nat;
pub open spec fn pow_mod(b: nat, e: nat) -> nat decreases e { if e == 0 { 1nat % P } else { (b * pow_mod(b, (e - 1) as nat)) % P } }
pub open spec fn fadd(a: nat, b: nat) -> nat { (a + b) % P }
pub open spec fn fsub(a: nat, b: nat) -> nat { ((a + P) - b) as nat % P }
pub open spec fn fmul(a: nat, b: nat) -> nat { (a * b) % P }
pub struct Dil { pub p: nat, pub q: nat, pub x: nat, pub dx: nat }
pub open spec fn dil_step(s: Dil, z: nat, mult: nat) -> Dil {
    let x = fadd(s.x, s.dx);
    let x_p = fmul(x, s.p);
    let y = fadd(s.p, fmul(z, x_p));
    Dil { p: fmul(s.p, y), q: fadd(fadd(fmul(s.q, y), fmul(x, x_p)), s.q), x: x, dx: fmul(s.dx, mult) }
}
pub open spec fn dil_state(i: nat, spacing: nat, z: nat) -> Dil decreases i {
    if i == 0 { Dil { p: fadd(z, 1), q: 1, x: 1, dx: fsub(pow_mod(2, spacing), 2) } }
    else { dil_step(dil_state((i - 1) as nat, spacing, z), z, pow_mod(2, spacing)) }
}
pub open spec fn diluted_spec(n_bits: nat, spacing: nat, z: nat, alpha: nat) -> nat {
    let s = dil_state((n_bits - 1) as nat, spacing, z);
    fadd(s.p, fmul(s.q, alpha))
}


pub open spec fn ipow2(i: nat) -> int decreases i { if i == 0 { 1 } else { 2 * ipow2((i - 1) as nat) } }
pub open spec fn bpow(b: int, i: nat) -> int decreases i { if i == 0 { 1 } else { b * bpow(b, (i - 1) as nat) } }

/// Dilute(n): the binary digits of n spread out so that digit k has weight B^k   (B = 2^spacing)
pub open spec fn dil(b: int, n: int) -> int decreases n {
    if n <= 0 { 0 } else { n % 2 + b * dil(b, n / 2) }
}
pub open spec fn u(b: int, n: int) -> int { dil(b, n) - dil(b, n - 1) }

/// one step of the defining recurrence
pub open spec fn step(r: int, z: int, alpha: int, un: int) -> int { r * (1 + z * un) + alpha * (un * un) }
/// apply the steps n = a+1 .. a+len to r
pub open spec fn apply(b: int, z: int, alpha: int, a: int, len: nat, r: int) -> int decreases len {
    if len == 0 { r } else { step(apply(b, z, alpha, a, (len - 1) as nat, r), z, alpha, u(b, a + len)) }
}
/// r_j of the statement: r_1 = 1, r_(j+1) = step(r_j, u_j)
pub open spec fn rec(b: int, z: int, alpha: int, j: nat) -> int recommends j >= 1 { apply(b, z, alpha, 0, (j - 1) as nat, 1) }

/// the doubling computation: x_i = u_(2^i), p_i, q_i
pub open spec fn xs(b: int, i: nat) -> int { u(b, ipow2(i)) }
pub open spec fn ps(b: int, z: int, i: nat) -> int decreases i {
    if i == 0 { 1 } else { let p = ps(b, z, (i - 1) as nat); p * (1 + z * xs(b, (i - 1) as nat)) * p }
}
pub open spec fn qs(b: int, z: int, i: nat) -> int decreases i {
    if i == 0 { 0 } else {
        let p = ps(b, z, (i - 1) as nat); let q = qs(b, z, (i - 1) as nat); let x = xs(b, (i - 1) as nat);
        q * (1 + z * x) * p + x * x * p + q
    }
}

proof fn lemma_ipow2_pos(i: nat) ensures ipow2(i) >= 1 decreases i { if i > 0 { lemma_ipow2_pos((i - 1) as nat); } }

/// Dilute(n + m*2^i) = Dilute(n) + B^i * Dilute(m)   for 0 <= n < 2^i
proof fn lemma_dil_shift(b: int, i: nat, n: int, m: int)
    requires 0 <= n < ipow2(i), m >= 0
    ensures dil(b, n + m * ipow2(i)) == dil(b, n) + bpow(b, i) * dil(b, m)
    decreases i
{
    if i == 0 {
        assert(n == 0);
        assert(m * 1 == m) by(nonlinear_arith);
        assert(1 * dil(b, m) == dil(b, m)) by(nonlinear_arith);
    } else {
        let h = ipow2((i - 1) as nat);
        lemma_ipow2_pos((i - 1) as nat);
        let t = n + m * ipow2(i);
        assert(m * ipow2(i) == 2 * (m * h)) by(nonlinear_arith) requires ipow2(i) == 2 * h;
        assert(m * h >= 0) by(nonlinear_arith) requires m >= 0, h >= 1;
        let k = m * h;
        assert(t == n + 2 * k);
        assert(t % 2 == n % 2 && t / 2 == n / 2 + k) by {
            vstd::arithmetic::div_mod::lemma_fundamental_div_mod(n, 2);
            vstd::arithmetic::div_mod::lemma_fundamental_div_mod_converse(t, 2, n / 2 + k, n % 2);
        }
        assert(0 <= n / 2 < h);
        lemma_dil_shift(b, (i - 1) as nat, n / 2, m);
        if t <= 0 {
            assert(n == 0 && k == 0);
            assert(m == 0) by(nonlinear_arith) requires m * h == 0, h >= 1, m >= 0;
            assert(bpow(b, i) * 0 == 0) by(nonlinear_arith);
        } else {
            // dil(t) = t%2 + b * dil(t/2) = n%2 + b*(dil(n/2) + B^(i-1) dil(m))
            assert(dil(b, t) == n % 2 + b * dil(b, n / 2 + k));
            assert(b * (dil(b, n / 2) + bpow(b, (i - 1) as nat) * dil(b, m)) == b * dil(b, n / 2) + bpow(b, i) * dil(b, m)) by(nonlinear_arith)
                requires bpow(b, i) == b * bpow(b, (i - 1) as nat);
            if n <= 0 {
                assert(n == 0);
                assert(b * 0 == 0) by(nonlinear_arith);
            }
        }
    }
}

/// u is periodic: u(n + m*2^i) = u(n) for 1 <= n < 2^i
proof fn lemma_u_periodic(b: int, i: nat, n: int, m: int)
    requires 1 <= n < ipow2(i), m >= 0
    ensures u(b, n + m * ipow2(i)) == u(b, n)
{
    lemma_dil_shift(b, i, n, m);
    lemma_dil_shift(b, i, n - 1, m);
}

/// apply over a concatenation
proof fn lemma_apply_split(b: int, z: int, alpha: int, a: int, l1: nat, l2: nat, r: int)
    ensures apply(b, z, alpha, a, l1 + l2, r) == apply(b, z, alpha, a + l1, l2, apply(b, z, alpha, a, l1, r))
    decreases l2
{
    if l2 > 0 {
        lemma_apply_split(b, z, alpha, a, l1, (l2 - 1) as nat, r);
        assert((l1 + l2 - 1) as nat == l1 + (l2 - 1) as nat);
    }
}

/// the block of 2^i - 1 steps that starts right after a multiple of 2^i acts as  r -> r * p_i + alpha * q_i
proof fn lemma_block(b: int, z: int, alpha: int, i: nat, m: int, r: int)
    requires m >= 0
    ensures apply(b, z, alpha, m * ipow2(i), (ipow2(i) - 1) as nat, r) == r * ps(b, z, i) + alpha * qs(b, z, i)
    decreases i
{
    lemma_ipow2_pos(i);
    if i == 0 {
        assert(r * 1 + alpha * 0 == r) by(nonlinear_arith);
    } else {
        let j = (i - 1) as nat;
        let h = ipow2(j);
        lemma_ipow2_pos(j);
        let a = m * ipow2(i);
        assert(a == (2 * m) * h) by(nonlinear_arith) requires a == m * ipow2(i), ipow2(i) == 2 * h;
        assert(a + h == (2 * m + 1) * h) by(nonlinear_arith) requires a == (2 * m) * h;
        // split: (h-1) steps, the middle step, (h-1) steps
        let l1 = (h - 1) as nat;
        assert((ipow2(i) - 1) as nat == (l1 + 1) + l1);
        lemma_apply_split(b, z, alpha, a, l1 + 1, l1, r);
        let r1 = apply(b, z, alpha, a, l1, r);
        let r2 = apply(b, z, alpha, a, l1 + 1, r);
        assert(r2 == step(r1, z, alpha, u(b, a + l1 + 1)));
        lemma_block(b, z, alpha, j, 2 * m, r);
        assert(r1 == r * ps(b, z, j) + alpha * qs(b, z, j));
        // the middle element (2m+1)*2^j has the same u as 2^j
        assert(a + l1 + 1 == h + m * ipow2(i));
        lemma_u_periodic(b, i, h, m);
        assert(u(b, a + l1 + 1) == xs(b, j));
        lemma_block(b, z, alpha, j, 2 * m + 1, r2);
        assert(a + (l1 + 1) == (2 * m + 1) * h);
        let p = ps(b, z, j); let q = qs(b, z, j); let x = xs(b, j);
        let r3 = apply(b, z, alpha, a + (l1 + 1), l1, r2);
        assert(r3 == r2 * p + alpha * q);
        assert(r2 == r1 * (1 + z * x) + alpha * (x * x));
        // ring identity, in small steps
        let aa = 1 + z * x; let xx = x * x;
        let t1 = r * p; let t2 = alpha * q;
        assert(r1 * aa == t1 * aa + t2 * aa) by(nonlinear_arith) requires r1 == t1 + t2;
        let s1 = t1 * aa; let s2 = t2 * aa; let s3 = alpha * xx;
        assert(r2 * p == s1 * p + s2 * p + s3 * p) by(nonlinear_arith) requires r2 == s1 + s2 + s3;
        assert(s1 * p == r * (p * aa * p)) by(nonlinear_arith) requires s1 == (r * p) * aa;
        assert(s2 * p == alpha * (q * aa * p)) by(nonlinear_arith) requires s2 == (alpha * q) * aa;
        assert(s3 * p == alpha * (xx * p)) by(nonlinear_arith) requires s3 == alpha * xx;
        let e1 = q * aa * p; let e2 = xx * p;
        assert(alpha * e1 + alpha * e2 + alpha * q == alpha * (e1 + e2 + q)) by(nonlinear_arith);
        assert(ps(b, z, i) == p * aa * p);
        assert(qs(b, z, i) == e1 + e2 + q);
    }
}

/// THE IDENTITY (over the integers): the value after all 2^n diluted values is p_n + alpha * q_n
pub proof fn lemma_diluted_doubling(b: int, z: int, alpha: int, n: nat)
    ensures rec(b, z, alpha, ipow2(n) as nat) == ps(b, z, n) + alpha * qs(b, z, n)
{
    lemma_ipow2_pos(n);
    lemma_block(b, z, alpha, n, 0, 1);
    assert(0 * ipow2(n) == 0) by(nonlinear_arith);
    assert(1 * ps(b, z, n) == ps(b, z, n)) by(nonlinear_arith);
}

// ---- the x recurrence used by the code: x_0 = 1, x_(i+1) = x_i + (B-2)*B^i
pub open spec fn geo(b: int, i: nat) -> int decreases i { if i == 0 { 0 } else { 1 + b * geo(b, (i - 1) as nat) } }
proof fn lemma_dil_all_ones(b: int, i: nat)
    ensures dil(b, ipow2(i) - 1) == geo(b, i)
    decreases i
{
    lemma_ipow2_pos(i);
    if i > 0 {
        let h = ipow2((i - 1) as nat);
        lemma_ipow2_pos((i - 1) as nat);
        let t = ipow2(i) - 1;
        assert(t == 2 * (h - 1) + 1);
        assert(t % 2 == 1 && t / 2 == h - 1) by {
            vstd::arithmetic::div_mod::lemma_fundamental_div_mod_converse(t, 2, h - 1, 1);
        }
        lemma_dil_all_ones(b, (i - 1) as nat);
    }
}
proof fn lemma_geo(b: int, i: nat)
    ensures (b - 1) * geo(b, i) == bpow(b, i) - 1
    decreases i
{
    if i == 0 {
        assert((b - 1) * 0 == 0) by(nonlinear_arith);
    } else {
        lemma_geo(b, (i - 1) as nat);
        let g = geo(b, (i - 1) as nat); let w = bpow(b, (i - 1) as nat);
        assert((b - 1) * (1 + b * g) == b * w - 1) by(nonlinear_arith) requires (b - 1) * g == w - 1;
    }
}
pub proof fn lemma_xs(b: int, i: nat)
    ensures
        xs(b, 0) == 1,
        xs(b, i + 1) == xs(b, i) + (b - 2) * bpow(b, i),
{
    // x_i = B^i - geo(i)
    lemma_ipow2_pos(i);
    lemma_dil_shift(b, i, 0, 1);
    lemma_dil_shift(b, i + 1, 0, 1);
    assert(1 * ipow2(i) == ipow2(i) && 1 * ipow2(i + 1) == ipow2(i + 1)) by(nonlinear_arith);
    assert(dil(b, 1) == 1) by { assert(dil(b, 0) == 0); assert(b * 0 == 0) by(nonlinear_arith); assert(1int / 2 == 0); }
    assert(bpow(b, i) * 1 == bpow(b, i) && bpow(b, i + 1) * 1 == bpow(b, i + 1)) by(nonlinear_arith);
    lemma_dil_all_ones(b, i);
    lemma_dil_all_ones(b, i + 1);
    lemma_geo(b, i);
    assert(xs(b, i) == bpow(b, i) - geo(b, i));
    assert(xs(b, i + 1) == bpow(b, i + 1) - geo(b, i + 1));
    let w = bpow(b, i); let g = geo(b, i);
    assert(b * w - (1 + b * g) == (w - g) + (b - 2) * w) by(nonlinear_arith) requires (b - 1) * g == w - 1;
    assert(dil(b, 0) == 0);
    assert(xs(b, 0) == dil(b, 1) - dil(b, 0));
}


// ------------------------------------------------------------------ reduction mod P (ring homomorphism Z -> F_P)
pub open spec fn m(a: int) -> nat { (a % (P as int)) as nat }
proof fn lemma_m_range(a: int) ensures m(a) < P, m(a) as int == a % (P as int) { assert(P > 0) by(compute_only); lemma_mod_bound(a, P as int); }
proof fn lemma_m_small(a: nat) requires a < P ensures m(a as int) == a { lemma_small_mod(a, P); }
proof fn lemma_m_add(a: int, b: int) ensures fadd(m(a), m(b)) == m(a + b) {
    lemma_m_range(a); lemma_m_range(b);
    lemma_add_mod_noop(a, b, P as int);
}
proof fn lemma_m_mul(a: int, b: int) ensures fmul(m(a), m(b)) == m(a * b) {
    lemma_m_range(a); lemma_m_range(b);
    lemma_mul_mod_noop_general(a, b, P as int);
}
proof fn lemma_m_sub(a: int, b: int) ensures fsub(m(a), m(b)) == m(a - b) {
    lemma_m_range(a); lemma_m_range(b);
    lemma_sub_mod_noop(a, b, P as int);
    // ((ma + P) - mb) % P == (ma - mb) % P
    lemma_mod_multiples_vanish(1, m(a) as int - m(b) as int, P as int);
    assert((m(a) + P) - m(b) == P as int * 1 + (m(a) as int - m(b) as int)) by(nonlinear_arith);
}

/// state of the code after k loop iterations, as reductions of the integer quantities
proof fn lemma_state(k: nat, spacing: nat, z: nat)
    requires z < P
    ensures ({
        let b = pow_mod(2, spacing) as int;
        let s = dil_state(k, spacing, z);
        &&& s.p == m(ps(b, z as int, k + 1))
        &&& s.q == m(qs(b, z as int, k + 1))
        &&& s.x == m(xs(b, k))
        &&& s.dx == m((b - 2) * bpow(b, k))
    })
    decreases k
{
    let b = pow_mod(2, spacing) as int;
    let zi = z as int;
    assert(pow_mod(2, spacing) < P) by {
        if spacing == 0 { lemma_mod_pos_bound(1, P as int); } else { lemma_mod_pos_bound((2 * pow_mod(2, (spacing - 1) as nat)) as int, P as int); }
    }
    lemma_m_small(pow_mod(2, spacing)); lemma_m_small(z); lemma_m_small(1); lemma_m_small(2);
    assert(P > 2) by(compute_only);
    lemma_xs(b, k);
    if k == 0 {
        lemma_xs(b, 0);
        assert(ps(b, zi, 1) == 1 + zi) by {
            assert(ps(b, zi, 0) == 1);
            assert(1 * (1 + zi * 1) * 1 == 1 + zi) by(nonlinear_arith);
        }
        assert(qs(b, zi, 1) == 1) by {
            assert(qs(b, zi, 0) == 0 && ps(b, zi, 0) == 1);
            assert(0 * (1 + zi * 1) * 1 + 1 * 1 * 1 + 0 == 1) by(nonlinear_arith);
        }
        lemma_m_add(zi, 1);
        lemma_m_sub(b, 2);
        assert((b - 2) * 1 == b - 2) by(nonlinear_arith);
        assert(zi + 1 == 1 + zi);
    } else {
        let j = (k - 1) as nat;
        lemma_state(j, spacing, z);
        lemma_xs(b, j);
        let s0 = dil_state(j, spacing, z);
        let p = ps(b, zi, j + 1); let q = qs(b, zi, j + 1); let x0 = xs(b, j); let d = (b - 2) * bpow(b, j);
        let x = xs(b, k);
        assert(x == x0 + d);
        lemma_m_add(x0, d);                  // x' = m(x)
        lemma_m_mul(x, p);                   // x_p = m(x*p)
        lemma_m_mul(zi, x * p);              // z*x_p
        lemma_m_add(p, zi * (x * p));        // y = m(p + z*x*p)
        let y = p + zi * (x * p);
        lemma_m_mul(p, y);                   // p' = m(p*y)
        lemma_m_mul(q, y);
        lemma_m_mul(x, x * p);
        lemma_m_add(q * y, x * (x * p));
        lemma_m_add(q * y + x * (x * p), q);
        lemma_m_mul(d, b);
        assert(p * y == p * (1 + zi * x) * p) by(nonlinear_arith) requires y == p + zi * (x * p);
        assert(q * y + x * (x * p) + q == q * (1 + zi * x) * p + x * x * p + q) by(nonlinear_arith) requires y == p + zi * (x * p);
        assert(d * b == (b - 2) * bpow(b, k)) by(nonlinear_arith) requires d == (b - 2) * bpow(b, j), bpow(b, k) == b * bpow(b, j);
        assert(ps(b, zi, k + 1) == p * (1 + zi * x) * p);
        assert(qs(b, zi, k + 1) == q * (1 + zi * x) * p + x * x * p + q);
    }
}

/// THE STATEMENT OF C15 (diluted half): what get_diluted_product returns (diluted_spec, proved on the code) is r_(2^n_bits)
/// of the defining recurrence r_1 = 1, r_(j+1) = r_j*(1 + z*u_j) + alpha*u_j^2 over all 2^n_bits diluted values
/// (u_j = Dilute(j) - Dilute(j-1) with digit weight 2^spacing), reduced mod P.
pub proof fn lemma_diluted_is_recurrence(n_bits: nat, spacing: nat, z: nat, alpha: nat)
    requires n_bits >= 1, z < P, alpha < P
    ensures diluted_spec(n_bits, spacing, z, alpha) == m(rec(pow_mod(2, spacing) as int, z as int, alpha as int, ipow2(n_bits) as nat))
{
    let b = pow_mod(2, spacing) as int;
    let k = (n_bits - 1) as nat;
    lemma_state(k, spacing, z);
    lemma_diluted_doubling(b, z as int, alpha as int, n_bits);
    lemma_m_small(alpha);
    let p = ps(b, z as int, n_bits); let q = qs(b, z as int, n_bits);
    lemma_m_mul(q, alpha as int);
    lemma_m_add(p, q * alpha);
    assert(alpha * q == q * alpha) by(nonlinear_arith);
}
} // verus!
fn main() {}
