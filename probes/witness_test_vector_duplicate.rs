// Appended to crates/commitment/src/vector/decommit.rs in a scratch copy; cargo test --offline -p swiftness_commitment w_duplicate
#[cfg(test)]
mod verif_witness {
    extern crate std;
    use super::*;
    use crate::vector::{config::Config, types::{Commitment, Query, Witness}};
    use alloc::vec;
    use std::println;

    #[test]
    fn w_duplicate_query_second_copy_unbound() {
        // height 3, all layers verifier friendly
        let h = 3u32;
        let leaves: Vec<Felt> = (0..8u64).map(|i| Felt::from(100 + i)).collect();
        let mut level = leaves.clone();
        let mut levels = vec![level.clone()];
        while level.len() > 1 {
            let next: Vec<Felt> = level.chunks(2).map(|c| hash_friendly_unfriendly(c[0], c[1], true)).collect();
            levels.push(next.clone());
            level = next;
        }
        let root = level[0];
        let cfg = Config { height: Felt::from(h as u64), n_verifier_friendly_commitment_layers: Felt::from(100u64) };
        let com = Commitment { config: cfg, commitment_hash: root };
        // honest path for leaf 5: siblings leaf 4, node (level1) index 3, node (level2) index 0
        let s0 = levels[0][4]; let s1 = levels[1][3]; let s2 = levels[2][0];
        let honest = vector_commitment_decommit(com.clone(), &[Query { index: Felt::from(5u64), value: leaves[5] }], Witness { authentications: vec![s0, s1, s2] });
        let junk = Felt::from(0xdeadbeefu64);
        let dup = vector_commitment_decommit(
            com.clone(),
            &[Query { index: Felt::from(5u64), value: leaves[5] }, Query { index: Felt::from(5u64), value: junk }],
            Witness { authentications: vec![s0, junk, s1, junk, s2, junk] },
        );
        println!("C04/C10: honest single query ok = {:?}; duplicated index 5 with junk value and junk path ok = {:?}", honest.is_ok(), dup.is_ok());
        assert!(honest.is_ok() && dup.is_ok());
    }
}
