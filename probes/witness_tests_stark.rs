use std::println;
extern crate alloc;
use crate::{
    commit::stark_commit,
    fixtures::{commitment, config, domains, unsent_commitment, witness},
    oods::verify_oods,
    types::StarkProof,
    verify::stark_verify,
};
use starknet_crypto::Felt;
use swiftness_air::{
    fixtures::public_input,
    layout::{recursive::Layout, LayoutTrait, StaticLayoutTrait},
};
use swiftness_fri::fixtures::queries;
use swiftness_transcript::transcript::Transcript;

fn p_minus(k: u64) -> Felt { Felt::ZERO - Felt::from(k) }

// F1: every inner-layer authentication node and every sibling leaf's Merkle path is unchecked
#[test]
fn w_f1_fri_inner_layer_auth_tampered_still_accepted() {
    let mut w = witness::get();
    let mut changed = 0;
    for layer in w.fri_witness.layers.iter_mut() {
        for a in layer.table_witness.vector.authentications.iter_mut() {
            *a = *a + Felt::ONE;
            changed += 1;
        }
    }
    let r = stark_verify::<Layout>(
        Layout::NUM_COLUMNS_FIRST, Layout::NUM_COLUMNS_SECOND,
        &public_input::get(), &queries::get(), commitment::get(), &w, &domains::get());
    println!("F1: changed {} authentication nodes; result = {:?}", changed, r.is_ok());
    assert!(r.is_ok());
}

// honest full proof accepted (sanity)
#[test]
fn w_honest_full_verify() {
    let p = StarkProof { config: config::get(), public_input: public_input::get(),
        unsent_commitment: unsent_commitment::get(), witness: witness::get() };
    let r = p.verify::<Layout>(Felt::from(50u64));
    println!("honest: {:?}", r.is_ok());
    assert!(r.is_ok());
}

// F3: n_queries = 2^40 accepted by validation
#[test]
fn w_f3_n_queries_2_pow_40_accepted() {
    let mut c = config::get();
    c.n_queries = Felt::TWO.pow(40u32);
    let r = c.validate(Felt::from(50u64), Felt::from(7u64), Felt::from(3u64));
    println!("F3a: n_queries=2^40 validate ok = {:?}", r.is_ok());
    assert!(r.is_ok());
}

// F3: log_n_cosets = p - 2 with heights re-declared mod p
#[test]
fn w_f3_log_n_cosets_p_minus_2_accepted() {
    let mut c = config::get();
    let lc = p_minus(2);
    c.log_n_cosets = lc;
    // n_queries * lc + pow_bits must reach security bits: 10*(p-2)+30 = 10 mod p -> use security 0
    let log_eval = c.log_trace_domain_size + lc; // 0x12 - 2 = 0x10
    c.traces.original.vector.height = log_eval;
    c.traces.interaction.vector.height = log_eval;
    c.composition.vector.height = log_eval;
    // fri: sum of steps (4+3+2+1 = 10?) + llb + lc == log_input_size (mod p)
    let mut sum = Felt::ZERO;
    for s in c.fri.fri_step_sizes.iter().skip(1) { sum += *s; }
    let lis = sum + c.fri.log_last_layer_degree_bound + lc;
    c.fri.log_input_size = lis;
    let mut h = lis;
    for (i, l) in c.fri.inner_layers.iter_mut().enumerate() {
        h = h - c.fri.fri_step_sizes[i + 1];
        l.vector.height = h;
    }
    let r = c.validate(Felt::ZERO, Felt::from(7u64), Felt::from(3u64));
    println!("F3b: log_n_cosets=p-2, fri.log_input_size={:#x}, eval exponent={:#x}: validate ok = {:?}", lis, log_eval, r.is_ok());
    assert!(r.is_ok());
}

// F3: fri.log_input_size larger than evaluation domain accepted
#[test]
fn w_f3_fri_input_size_not_tied() {
    let mut c = config::get();
    // raise last layer degree bound by 3 and log_input_size by 3, shift all inner heights by 3
    c.fri.log_last_layer_degree_bound = c.fri.log_last_layer_degree_bound + Felt::from(3u64);
    c.fri.log_input_size = c.fri.log_input_size + Felt::from(3u64);
    for l in c.fri.inner_layers.iter_mut() { l.vector.height = l.vector.height + Felt::from(3u64); }
    let r = c.validate(Felt::from(50u64), Felt::from(7u64), Felt::from(3u64));
    println!("F3c: fri.log_input_size={:#x} vs eval exponent 0x14: validate ok = {:?}", c.fri.log_input_size, r.is_ok());
    assert!(r.is_ok());
}

// C18: truncated fri inner_layers commitments -> panic
#[test]
fn w_c18_truncated_inner_layers_panics() {
    let r = std::panic::catch_unwind(|| {
        let mut u = unsent_commitment::get();
        u.fri.inner_layers.pop();
        let pi = public_input::get();
        let cfg = config::get();
        let d = domains::get();
        let mut t = Transcript::new(pi.get_hash(cfg.n_verifier_friendly_commitment_layers));
        let _ = stark_commit::<Layout>(&mut t, &pi, &u, &cfg, &d);
    });
    println!("C18a: truncated inner_layers -> panicked = {}", r.is_err());
    assert!(r.is_err());
}

// C18 / F2: oods vector shorter than 2 -> panic (usize underflow / slice)
#[test]
fn w_f2_short_oods_panics() {
    let r = std::panic::catch_unwind(|| {
        let pi = public_input::get();
        let c = commitment::get();
        let d = domains::get();
        let _ = verify_oods::<Layout>(&[Felt::ONE], &c.traces.interaction_elements, &pi,
            &crate::fixtures::constraint_coefficients::get(), &c.interaction_after_composition,
            &d.trace_domain_size, &d.trace_generator);
    });
    println!("F2a: oods of length 1 -> panicked = {}", r.is_err());
    assert!(r.is_err());
}

// F2: oods vector with junk inserted: verify_oods reads claimed composition from the END,
// DEEP evaluator reads it at MASK_SIZE, MASK_SIZE+1
#[test]
fn w_f2_oods_decoupled() {
    let pi = public_input::get();
    let u = unsent_commitment::get();
    let cfg = config::get();
    let d = domains::get();
    let mut t = Transcript::new_with_counter(
        Felt::from_hex_unchecked("0xaf91f2c71f4a594b1575d258ce82464475c82d8fb244142d0db450491c1b52"),
        Felt::ZERO);
    let tc = Layout::traces_commit(&mut t, &u.traces, cfg.traces.clone());
    let alpha = t.random_felt_to_prover();
    let mut coeffs = alloc::vec::Vec::new();
    let mut v = Felt::ONE;
    for _ in 0..Layout::N_CONSTRAINTS { coeffs.push(v); v *= alpha; }
    let _ = swiftness_commitment::table::commit::table_commit(&mut t, u.composition, cfg.composition.clone());
    let z = t.random_felt_to_prover();
    let honest = u.oods_values.clone();
    let n = honest.len();
    assert_eq!(n, Layout::MASK_SIZE + Layout::CONSTRAINT_DEGREE);
    let r0 = verify_oods::<Layout>(&honest, &tc.interaction_elements, &pi, &coeffs, &z, &d.trace_domain_size, &d.trace_generator);
    let mut o = honest.clone();
    let (c0, c1) = (o[n - 2], o[n - 1]);
    o[n - 2] = Felt::from(12345u64);
    o[n - 1] = Felt::from(67890u64);
    o.push(c0);
    o.push(c1);
    let r = verify_oods::<Layout>(&o, &tc.interaction_elements, &pi, &coeffs, &z, &d.trace_domain_size, &d.trace_generator);
    println!("F2b: honest ok = {:?}; oods len {} (expected {}), positions {}..{} (read by the DEEP evaluator as composition values) hold junk: verify_oods ok = {:?}", r0.is_ok(), o.len(), n, n - 2, n, r.is_ok());
    assert!(r0.is_ok() && r.is_ok());
}

// C14: perturb an address of a program cell: hashes unchanged
#[test]
fn w_c14_positional_hashing() {
    let pi = public_input::get();
    let h0 = Layout::verify_public_input(&pi).unwrap();
    let mut pi2 = public_input::get();
    pi2.main_page.0[3].address = pi2.main_page.0[3].address + Felt::from(1000u64);
    let h1 = Layout::verify_public_input(&pi2).unwrap();
    println!("C14: address of main-page cell 3 changed by +1000; (program_hash, output_hash) unchanged = {}", h0 == h1);
    assert!(h0 == h1);
}

// F4: duplicates survive generate_queries
#[test]
fn w_f4_duplicate_queries() {
    let mut t = Transcript::new(Felt::from(7u64));
    let q = crate::queries::generate_queries(&mut t, Felt::from(10u64), Felt::from(4u64));
    let mut dup = false;
    for i in 1..q.len() { if q[i] == q[i - 1] { dup = true; } }
    println!("F4: n=10, domain size 4 -> {} queries, duplicates present = {}", q.len(), dup);
    assert!(dup && q.len() == 10);
}

// C18/C14: output segment longer than main page -> slice underflow panic in verify_public_input
#[test]
fn w_c14_output_len_panics() {
    let r = std::panic::catch_unwind(|| {
        let mut pi = public_input::get();
        pi.segments[2].stop_ptr = pi.segments[2].begin_addr + Felt::from(100000u64);
        let _ = Layout::verify_public_input(&pi);
    });
    println!("C14b: output segment of 100000 cells with short main page -> panicked = {}", r.is_err());
    assert!(r.is_err());
}

// C18: main page longer than the public memory column -> assert! in get_public_memory_product_ratio
#[test]
fn w_c18_public_memory_assert() {
    let r = std::panic::catch_unwind(|| {
        let pi = public_input::get();
        let _ = pi.get_public_memory_product_ratio(Felt::from(3u64), Felt::from(5u64), Felt::from(2u64));
    });
    println!("C18b: public_memory_column_size=2 < main page length -> panicked = {}", r.is_err());
    assert!(r.is_err());
}
