use vstd::prelude::*;
use vstd::arithmetic::div_mod::*;
use vstd::arithmetic::mul::*;
verus! {
pub spec const P: nat = 0x800000000000011000000000000000000000000000000000000000000000001nat;
pub open spec fn fadd(a: nat, b: nat) -> nat { (a + b) % P }
pub open spec fn fsub(a: nat, b: nat) -> nat { ((a + P) - b) as nat % P }
pub open spec fn fmul(a: nat, b: nat) -> nat { (a * b) % P }
pub open spec fn fold2(fx: nat, fmx: nat, e: nat, xinv: nat) -> nat {
    fadd(fadd(fx, fmx), fmul(fmul(e, xinv), fsub(fx, fmx)))
}
// congruence toolkit (closed: Z3 sees only the facts each lemma exports)
pub closed spec fn cong(a: int, b: int) -> bool { a % (P as int) == b % (P as int) }
pub proof fn cong_refl(a: int) ensures cong(a, a) {}
pub proof fn cong_sym(a: int, b: int) requires cong(a, b) ensures cong(b, a) {}
pub proof fn cong_trans(a: int, b: int, c: int) requires cong(a, b), cong(b, c) ensures cong(a, c) {}
pub proof fn cong_mod(a: int) ensures cong(a % (P as int), a) { lemma_mod_twice(a, P as int); }
pub proof fn cong_add(a: int, b: int, c: int, d: int) requires cong(a, b), cong(c, d) ensures cong(a + c, b + d) {
    lemma_add_mod_noop(a, c, P as int); lemma_add_mod_noop(b, d, P as int);
}
pub proof fn cong_sub(a: int, b: int, c: int, d: int) requires cong(a, b), cong(c, d) ensures cong(a - c, b - d) {
    lemma_sub_mod_noop(a, c, P as int); lemma_sub_mod_noop(b, d, P as int);
}
pub proof fn cong_mul(a: int, b: int, c: int, d: int) requires cong(a, b), cong(c, d) ensures cong(a * c, b * d) {
    lemma_mul_mod_noop_general(a, c, P as int); lemma_mul_mod_noop_general(b, d, P as int);
}
pub proof fn cong_addP(a: int) ensures cong(a + P as int, a) { lemma_mod_add_multiples_vanish(a, P as int); }
pub proof fn cong_eq_small(a: nat, b: nat) requires a < P, b < P, cong(a as int, b as int) ensures a == b {
    lemma_small_mod(a, P); lemma_small_mod(b, P);
}
pub proof fn cong_fadd(a: nat, b: nat) ensures cong(fadd(a, b) as int, a as int + b as int) { cong_mod(a as int + b as int); }
pub proof fn cong_fmul(a: nat, b: nat) ensures cong(fmul(a, b) as int, a as int * b as int) { cong_mod(a as int * b as int); }
pub proof fn cong_fsub(a: nat, b: nat) requires b < P ensures cong(fsub(a, b) as int, a as int - b as int) {
    cong_mod(a as int + P as int - b as int); cong_addP(a as int - b as int);
    cong_trans(fsub(a, b) as int, a as int - b as int + P as int, a as int - b as int);
}

pub proof fn lemma_fold2_identity(fx: nat, fmx: nat, e: nat, xinv: nat, x: nat, a0: nat, a1: nat)
    requires fmx < P, a1 < P,
        fx == fadd(a0, fmul(x, a1)),
        fmx == fsub(a0, fmul(x, a1)),
        fmul(x, xinv) == 1,
    ensures fold2(fx, fmx, e, xinv) == fmul(2, fadd(a0, fmul(e, a1)))
{
    let (ai, xi, yi, ei, bi) = (a0 as int, x as int, xinv as int, e as int, a1 as int);
    let t = fmul(x, a1);
    // t ≡ x*a1 ; fx ≡ a0 + x a1 ; fmx ≡ a0 - x a1
    cong_fmul(x, a1);
    cong_fadd(a0, t); cong_refl(ai); cong_add(ai, ai, t as int, xi * bi);
    cong_trans(fx as int, ai + t as int, ai + xi * bi);
    assert(t < P) by { lemma_mod_bound((x * a1) as int, P as int); }
    cong_fsub(a0, t); cong_sub(ai, ai, t as int, xi * bi);
    cong_trans(fmx as int, ai - t as int, ai - xi * bi);
    // S = fx + fmx ≡ 2 a0 ; D = fx - fmx ≡ 2 x a1
    cong_fadd(fx, fmx); cong_add(fx as int, ai + xi * bi, fmx as int, ai - xi * bi);
    cong_trans(fadd(fx, fmx) as int, fx as int + fmx as int, (ai + xi * bi) + (ai - xi * bi));
    cong_fsub(fx, fmx); cong_sub(fx as int, ai + xi * bi, fmx as int, ai - xi * bi);
    cong_trans(fsub(fx, fmx) as int, fx as int - fmx as int, (ai + xi * bi) - (ai - xi * bi));
    // M = (e*xinv) * D ≡ e * xinv * 2 x a1
    cong_fmul(e, xinv);
    cong_fmul(fmul(e, xinv), fsub(fx, fmx));
    cong_mul(fmul(e, xinv) as int, ei * yi, fsub(fx, fmx) as int, (ai + xi * bi) - (ai - xi * bi));
    cong_trans(fmul(fmul(e, xinv), fsub(fx, fmx)) as int, fmul(e, xinv) as int * fsub(fx, fmx) as int, (ei * yi) * ((ai + xi * bi) - (ai - xi * bi)));
    // integer identity: (e y)(2 x b) = (2 e b)(x y)
    assert((ei * yi) * ((ai + xi * bi) - (ai - xi * bi)) == (2 * ei * bi) * (xi * yi)) by (nonlinear_arith);
    // x y ≡ 1
    cong_fmul(x, xinv); cong_sym(fmul(x, xinv) as int, xi * yi);   // x*y ≡ 1
    cong_refl(2 * ei * bi); cong_mul(2 * ei * bi, 2 * ei * bi, xi * yi, 1);
    // total
    cong_fadd(fadd(fx, fmx), fmul(fmul(e, xinv), fsub(fx, fmx)));
    cong_add(fadd(fx, fmx) as int, (ai + xi * bi) + (ai - xi * bi), fmul(fmul(e, xinv), fsub(fx, fmx)) as int, (2 * ei * bi) * (xi * yi));
    assert((ai + xi * bi) + (ai - xi * bi) == 2 * ai);
    cong_refl(2 * ai);
    cong_add((ai + xi * bi) + (ai - xi * bi), 2 * ai, (2 * ei * bi) * (xi * yi), (2 * ei * bi) * 1);
    let lhs = fold2(fx, fmx, e, xinv) as int;
    cong_trans(lhs, fadd(fx, fmx) as int + fmul(fmul(e, xinv), fsub(fx, fmx)) as int, ((ai + xi * bi) + (ai - xi * bi)) + (2 * ei * bi) * (xi * yi));
    cong_trans(lhs, ((ai + xi * bi) + (ai - xi * bi)) + (2 * ei * bi) * (xi * yi), 2 * ai + (2 * ei * bi) * 1);
    // rhs
    cong_fmul(e, a1); cong_fadd(a0, fmul(e, a1)); cong_add(ai, ai, fmul(e, a1) as int, ei * bi);
    cong_trans(fadd(a0, fmul(e, a1)) as int, ai + fmul(e, a1) as int, ai + ei * bi);
    cong_fmul(2, fadd(a0, fmul(e, a1))); cong_refl(2); cong_mul(2, 2, fadd(a0, fmul(e, a1)) as int, ai + ei * bi);
    let rhs = fmul(2, fadd(a0, fmul(e, a1))) as int;
    cong_trans(rhs, 2 * fadd(a0, fmul(e, a1)) as int, 2 * (ai + ei * bi));
    assert(2 * (ai + ei * bi) == 2 * ai + (2 * ei * bi) * 1) by (nonlinear_arith);
    cong_sym(rhs, 2 * ai + (2 * ei * bi) * 1);
    cong_trans(lhs, 2 * ai + (2 * ei * bi) * 1, rhs);
    assert(fold2(fx, fmx, e, xinv) < P && fmul(2, fadd(a0, fmul(e, a1))) < P) by {
        lemma_mod_bound((fadd(fx, fmx) + fmul(fmul(e, xinv), fsub(fx, fmx))) as int, P as int);
        lemma_mod_bound((2 * fadd(a0, fmul(e, a1))) as int, P as int);
    }
    cong_eq_small(fold2(fx, fmx, e, xinv), fmul(2, fadd(a0, fmul(e, a1))));
}
}
fn main() {}
