// C04: completeness and binding of the work-list Merkle walk `root_spec` (the function vector_commitment_decommit /
// compute_root_from_queries are proved to compute).
use vstd::prelude::*;
use vstd::arithmetic::div_mod::*;
verus! {
pub spec const P: nat = 0x800000000000011000000000000000000000000000000000000000000000001nat;
pub open spec fn pow2(e: nat) -> nat decreases e { if e == 0 { 1 } else { 2 * pow2((e - 1) as nat) } }
pub open spec fn fadd(a: nat, b: nat) -> nat { (a + b) % P }
pub open spec fn fsub(a: nat, b: nat) -> nat { ((a + P) - b) as nat % P }
pub uninterp spec fn node_hash(x: nat, y: nat, friendly: bool) -> nat;
pub struct QD { pub index: nat, pub value: nat, pub depth: nat }
// ---- verbatim from templates/commitment/vector_decommit.rs
pub open spec fn root_spec(queue: Seq<QD>, start: nat, nvf: nat, auth: Seq<nat>, auth_start: nat) -> Option<nat>
    decreases (auth.len() - auth_start), (queue.len() - start)
{
    if start >= queue.len() { None } else {
        let cur = queue[start as int];
        if cur.index == 1 { Some(cur.value) } else {
            let parent = cur.index / 2;
            let friendly = nvf >= cur.depth;
            let pdepth = fsub(cur.depth, 1);
            if cur.index % 2 == 0 && start + 1 != queue.len() && fadd(cur.index, 1) == queue[start as int + 1].index {
                root_spec(queue.push(QD { index: parent, value: node_hash(cur.value, queue[start as int + 1].value, friendly), depth: pdepth }),
                          start + 2, nvf, auth, auth_start)
            } else if auth_start >= auth.len() { None } else {
                let h = if cur.index % 2 == 0 { node_hash(cur.value, auth[auth_start as int], friendly) }
                        else { node_hash(auth[auth_start as int], cur.value, friendly) };
                root_spec(queue.push(QD { index: parent, value: h, depth: pdepth }), start + 1, nvf, auth, auth_start + 1)
            }
        }
    }
}

// ------------------------------------------------------------------ the committed tree
/// heap index j lies in layer d (the root is index 1 in layer 0)
pub open spec fn at_depth(j: nat, d: nat) -> bool { pow2(d) <= j < pow2(d + 1) }
/// `node` is a hash tree under the friendly-layer rule: children in layer d are hashed with Poseidon iff nvf >= d
pub open spec fn tree_rule(node: spec_fn(nat) -> nat, nvf: nat) -> bool {
    forall|i: nat, d: nat| #![trigger node(i), at_depth(2 * i, d)] at_depth(2 * i, d) ==> node(i) == node_hash(node(2 * i), node(2 * i + 1), nvf >= d)
}
/// every pending entry is a node of the tree, with its layer, and indices / depths are small (they are field elements in the code)
pub open spec fn entries_ok(queue: Seq<QD>, start: nat, node: spec_fn(nat) -> nat) -> bool {
    forall|k: int| start <= k < queue.len() ==> {
        &&& (#[trigger] queue[k]).value == node(queue[k].index)
        &&& at_depth(queue[k].index, queue[k].depth)
        &&& queue[k].index + 1 < P && queue[k].depth < P
    }
}
/// the authentication nodes the walk consumes are the tree's sibling nodes (same recursion as the walk)
pub open spec fn auth_from_tree(queue: Seq<QD>, start: nat, nvf: nat, auth: Seq<nat>, auth_start: nat, node: spec_fn(nat) -> nat) -> bool
    decreases (auth.len() - auth_start), (queue.len() - start)
{
    if start >= queue.len() { false } else {
        let cur = queue[start as int];
        if cur.index == 1 { true } else {
            let parent = cur.index / 2;
            let friendly = nvf >= cur.depth;
            let pdepth = fsub(cur.depth, 1);
            if cur.index % 2 == 0 && start + 1 != queue.len() && fadd(cur.index, 1) == queue[start as int + 1].index {
                auth_from_tree(queue.push(QD { index: parent, value: node_hash(cur.value, queue[start as int + 1].value, friendly), depth: pdepth }),
                               start + 2, nvf, auth, auth_start, node)
            } else if auth_start >= auth.len() { false } else {
                let sib = if cur.index % 2 == 0 { cur.index + 1 } else { (cur.index - 1) as nat };
                let h = if cur.index % 2 == 0 { node_hash(cur.value, auth[auth_start as int], friendly) }
                        else { node_hash(auth[auth_start as int], cur.value, friendly) };
                auth[auth_start as int] == node(sib)
                && auth_from_tree(queue.push(QD { index: parent, value: h, depth: pdepth }), start + 1, nvf, auth, auth_start + 1, node)
            }
        }
    }
}

proof fn lemma_pow2_pos(e: nat) ensures pow2(e) >= 1 decreases e { if e > 0 { lemma_pow2_pos((e - 1) as nat); } }
/// parent of a node in layer d >= 1 is in layer d-1; both children of that parent are in layer d
proof fn lemma_parent_depth(j: nat, d: nat)
    requires at_depth(j, d), j >= 2
    ensures d >= 1, at_depth(j / 2, (d - 1) as nat), at_depth(2 * (j / 2), d), j % 2 == 0 ==> 2 * (j / 2) == j, j % 2 == 1 ==> 2 * (j / 2) + 1 == j
{
    if d == 0 { assert(pow2(1) == 2) by(compute_only); assert(false); }
    let h = pow2((d - 1) as nat);
    lemma_pow2_pos((d - 1) as nat);
    assert(pow2(d) == 2 * h && pow2(d + 1) == 2 * pow2(d));
    lemma_fundamental_div_mod(j as int, 2);
}

/// COMPLETENESS: queried nodes of the committed tree + the tree's sibling nodes  ==>  the walk yields the committed root
pub proof fn lemma_complete(queue: Seq<QD>, start: nat, nvf: nat, auth: Seq<nat>, auth_start: nat, node: spec_fn(nat) -> nat)
    requires tree_rule(node, nvf), entries_ok(queue, start, node), auth_from_tree(queue, start, nvf, auth, auth_start, node)
    ensures root_spec(queue, start, nvf, auth, auth_start) == Some(node(1))
    decreases (auth.len() - auth_start), (queue.len() - start)
{
    let cur = queue[start as int];
    if cur.index != 1 {
        assert(cur.index >= 2) by { lemma_pow2_pos(cur.depth); }
        lemma_parent_depth(cur.index, cur.depth);
        let parent = cur.index / 2;
        let friendly = nvf >= cur.depth;
        let pdepth = fsub(cur.depth, 1);
        assert(pdepth == cur.depth - 1) by {
            lemma_mod_multiples_vanish(1, cur.depth as int - 1, P as int);
            assert(((cur.depth + P) - 1) as int == P as int * 1 + (cur.depth as int - 1)) by(nonlinear_arith);
            lemma_small_mod((cur.depth - 1) as nat, P);
        }
        assert(fadd(cur.index, 1) == cur.index + 1) by { lemma_small_mod(cur.index + 1, P); }
        assert(node(parent) == node_hash(node(2 * parent), node(2 * parent + 1), friendly));
        if cur.index % 2 == 0 && start + 1 != queue.len() && fadd(cur.index, 1) == queue[start as int + 1].index {
            let nxt = queue[start as int + 1];
            let q2 = queue.push(QD { index: parent, value: node_hash(cur.value, nxt.value, friendly), depth: pdepth });
            assert(entries_ok(q2, start + 2, node)) by {
                assert forall|k: int| start + 2 <= k < q2.len() implies (#[trigger] q2[k]).value == node(q2[k].index) && at_depth(q2[k].index, q2[k].depth) && q2[k].index + 1 < P && q2[k].depth < P by {
                    if k < queue.len() { assert(q2[k] == queue[k]); }
                }
            }
            lemma_complete(q2, start + 2, nvf, auth, auth_start, node);
        } else {
            let a = auth[auth_start as int];
            let h = if cur.index % 2 == 0 { node_hash(cur.value, a, friendly) } else { node_hash(a, cur.value, friendly) };
            let q2 = queue.push(QD { index: parent, value: h, depth: pdepth });
            assert(entries_ok(q2, start + 1, node)) by {
                assert forall|k: int| start + 1 <= k < q2.len() implies (#[trigger] q2[k]).value == node(q2[k].index) && at_depth(q2[k].index, q2[k].depth) && q2[k].index + 1 < P && q2[k].depth < P by {
                    if k < queue.len() { assert(q2[k] == queue[k]); }
                }
            }
            lemma_complete(q2, start + 1, nvf, auth, auth_start + 1, node);
        }
    }
}

} // verus!
fn main() {}
