#![feature(allocator_api)]
use vstd::prelude::*;
use vstd::std_specs::ops::*;
use vstd::std_specs::cmp::*;
verus! {
pub spec const P: nat = 0x800000000000011000000000000000000000000000000000000000000000001nat;
#[verifier::external_body]
#[derive(Clone, Copy)]
pub struct Felt { _x: [u64; 4] }
impl View for Felt { type V = nat; uninterp spec fn view(&self) -> nat; }
pub broadcast axiom fn felt_range(f: Felt) ensures #[trigger] f@ < P;
pub uninterp spec fn felt_of(n: nat) -> Felt;
pub broadcast axiom fn felt_of_view(n: nat) requires n < P ensures #[trigger] felt_of(n)@ == n;

impl AddSpecImpl<Felt> for Felt {
    open spec fn obeys_add_spec() -> bool { true }
    open spec fn add_req(self, rhs: Felt) -> bool { true }
    open spec fn add_spec(self, rhs: Felt) -> Felt { felt_of((self@ + rhs@) % P) }
}
impl core::ops::Add<Felt> for Felt {
    type Output = Felt;
    #[verifier::external_body]
    fn add(self, rhs: Felt) -> Felt { unimplemented!() }
}
impl AddAssignSpecImpl<Felt> for Felt {
    open spec fn obeys_add_assign_spec() -> bool { true }
    open spec fn add_assign_req(&self, rhs: Felt) -> bool { true }
    open spec fn add_assign_spec(&self, rhs: Felt) -> Felt { felt_of((self@ + rhs@) % P) }
}
impl core::ops::AddAssign<Felt> for Felt {
    #[verifier::external_body]
    fn add_assign(&mut self, rhs: Felt) { unimplemented!() }
}

impl SubSpecImpl<Felt> for Felt {
    open spec fn obeys_sub_spec() -> bool { true }
    open spec fn sub_req(self, rhs: Felt) -> bool { true }
    open spec fn sub_spec(self, rhs: Felt) -> Felt { felt_of(((self@ + P) - rhs@) as nat % P) }
}
impl core::ops::Sub<Felt> for Felt {
    type Output = Felt;
    #[verifier::external_body]
    fn sub(self, rhs: Felt) -> Felt { unimplemented!() }
}
impl SubAssignSpecImpl<Felt> for Felt {
    open spec fn obeys_sub_assign_spec() -> bool { true }
    open spec fn sub_assign_req(&self, rhs: Felt) -> bool { true }
    open spec fn sub_assign_spec(&self, rhs: Felt) -> Felt { felt_of(((self@ + P) - rhs@) as nat % P) }
}
impl core::ops::SubAssign<Felt> for Felt {
    #[verifier::external_body]
    fn sub_assign(&mut self, rhs: Felt) { unimplemented!() }
}

impl MulSpecImpl<Felt> for Felt {
    open spec fn obeys_mul_spec() -> bool { true }
    open spec fn mul_req(self, rhs: Felt) -> bool { true }
    open spec fn mul_spec(self, rhs: Felt) -> Felt { felt_of((self@ * rhs@) % P) }
}
impl core::ops::Mul<Felt> for Felt {
    type Output = Felt;
    #[verifier::external_body]
    fn mul(self, rhs: Felt) -> Felt { unimplemented!() }
}
impl MulAssignSpecImpl<Felt> for Felt {
    open spec fn obeys_mul_assign_spec() -> bool { true }
    open spec fn mul_assign_req(&self, rhs: Felt) -> bool { true }
    open spec fn mul_assign_spec(&self, rhs: Felt) -> Felt { felt_of((self@ * rhs@) % P) }
}
impl core::ops::MulAssign<Felt> for Felt {
    #[verifier::external_body]
    fn mul_assign(&mut self, rhs: Felt) { unimplemented!() }
}
impl PartialEqSpecImpl for Felt {
    open spec fn obeys_eq_spec() -> bool { true }
    open spec fn eq_spec(&self, other: &Felt) -> bool { self@ == other@ }
}
impl PartialEq for Felt {
    #[verifier::external_body]
    fn eq(&self, other: &Felt) -> bool { unimplemented!() }
}
impl PartialOrdSpecImpl for Felt {
    open spec fn obeys_partial_cmp_spec() -> bool { true }
    open spec fn partial_cmp_spec(&self, other: &Felt) -> Option<core::cmp::Ordering> {
        if self@ < other@ { Some(core::cmp::Ordering::Less) } else if self@ == other@ { Some(core::cmp::Ordering::Equal) } else { Some(core::cmp::Ordering::Greater) }
    }
}
impl PartialOrd for Felt {
    #[verifier::external_body]
    fn partial_cmp(&self, other: &Felt) -> Option<core::cmp::Ordering> { unimplemented!() }
}
impl From<u64> for Felt {
    #[verifier::external_body]
    fn from(x: u64) -> (r: Felt) ensures r@ == x as nat { unimplemented!() }
}
impl From<i32> for Felt {
    #[verifier::external_body]
    fn from(x: i32) -> (r: Felt) ensures x >= 0 ==> r@ == x as nat { unimplemented!() }
}
pub open spec fn pow2(e: nat) -> nat decreases e { if e == 0 { 1 } else { 2 * pow2((e - 1) as nat) } }
pub struct BigInt { pub v: Ghost<nat> }
pub struct TryFromBigIntError { _b: u8 }
impl Felt {
    #[verifier::external_body]
    pub exec const ZERO: Felt ensures Self::ZERO@ == 0 { Felt { _x: [0u64; 4] } }
    #[verifier::external_body]
    pub fn to_bigint(&self) -> (r: BigInt) ensures r.v@ == self@ { unimplemented!() }
    #[verifier::external_body]
    pub fn pow(&self, e: u64) -> (r: Felt) ensures self@ == 2 && e <= 200 ==> r@ == pow2(e as nat) { unimplemented!() }
}
impl TryFrom<BigInt> for usize {
    type Error = TryFromBigIntError;
    #[verifier::external_body]
    fn try_from(b: BigInt) -> (r: Result<usize, TryFromBigIntError>)
        ensures r.is_ok() <==> b.v@ <= usize::MAX, r.is_ok() ==> r->Ok_0 as nat == b.v@
    { unimplemented!() }
}
impl TryFrom<BigInt> for u64 {
    type Error = TryFromBigIntError;
    #[verifier::external_body]
    fn try_from(b: BigInt) -> (r: Result<u64, TryFromBigIntError>)
        ensures r.is_ok() <==> b.v@ <= u64::MAX, r.is_ok() ==> r->Ok_0 as nat == b.v@
    { unimplemented!() }
}
pub mod vector { 
  use super::*;
  pub enum Error { MisMatch { value: Felt, expected: Felt } }
  pub struct Config { pub height: Felt, pub n_verifier_friendly_commitment_layers: Felt }
  impl Config {
    pub fn validate(
        &self,
        expected_height: Felt,
        expected_n_verifier_friendly_commitment_layers: Felt,
    ) -> (r: Result<(), Error>)
        ensures r.is_ok() <==> (self.height@ == expected_height@ && self.n_verifier_friendly_commitment_layers@ == expected_n_verifier_friendly_commitment_layers@)
    {
        if self.height != expected_height {
            return Err(Error::MisMatch { value: self.height, expected: expected_height });
        }
        if self.n_verifier_friendly_commitment_layers
            != expected_n_verifier_friendly_commitment_layers
        {
            return Err(Error::MisMatch {
                value: self.n_verifier_friendly_commitment_layers,
                expected: expected_n_verifier_friendly_commitment_layers,
            });
        }

        Ok(())
    }

  }
}
pub mod table { use super::*; pub struct Config { pub n_columns: Felt, pub vector: vector::Config } }

pub enum Error {
    OutOfBounds { min: u64, max: u64 },
    FirstFriStepInvalid,
    InvalidColumnCount { expected: Felt, actual: Felt },
    LogInputSizeMismatch { expected: Felt, actual: Felt },
    VectorValidationFailed(vector::Error),
    TryFromBigInt(TryFromBigIntError),
}
impl From<vector::Error> for Error { fn from(e: vector::Error) -> Error { Error::VectorValidationFailed(e) } }
impl From<TryFromBigIntError> for Error { fn from(e: TryFromBigIntError) -> Error { Error::TryFromBigInt(e) } }

const MAX_LAST_LAYER_LOG_DEGREE_BOUND: u64 = 15;
const MAX_FRI_LAYERS: u64 = 15;
const MIN_FRI_LAYERS: u64 = 2;
const MAX_FRI_STEP: u64 = 4;
const MIN_FRI_STEP: u64 = 1;

pub struct Config {
    pub log_input_size: Felt,
    pub n_layers: Felt,
    pub inner_layers: Vec<table::Config>,
    pub fri_step_sizes: Vec<Felt>,
    pub log_last_layer_degree_bound: Felt,
}

pub open spec fn steps_sum(s: Seq<Felt>, n: int) -> int decreases n { if n <= 1 { 0 } else { steps_sum(s, n - 1) + s[n - 1]@ as int } }

pub open spec fn layer_ok(c: &Config, i: int, nvf: nat) -> bool {
    1 <= c.fri_step_sizes@[i]@ <= 4
    && c.inner_layers@[i - 1].n_columns@ == pow2(c.fri_step_sizes@[i]@)
    && c.inner_layers@[i - 1].vector.height@ as int == c.log_input_size@ as int - steps_sum(c.fri_step_sizes@, i + 1)
    && c.inner_layers@[i - 1].vector.n_verifier_friendly_commitment_layers@ == nvf
}
pub open spec fn layer_ok_mod(c: &Config, i: int, nvf: nat) -> bool {
    1 <= c.fri_step_sizes@[i]@ <= 4
    && c.inner_layers@[i - 1].n_columns@ == pow2(c.fri_step_sizes@[i]@)
    && c.inner_layers@[i - 1].vector.height@ as int == ((c.log_input_size@ + P) as int - steps_sum(c.fri_step_sizes@, i + 1)) % (P as int)
    && c.inner_layers@[i - 1].vector.n_verifier_friendly_commitment_layers@ == nvf
}
pub proof fn steps_sum_mono(s: Seq<Felt>, a: int, b: int)
    requires 1 <= a <= b
    ensures 0 <= steps_sum(s, a) <= steps_sum(s, b)
    decreases b
{
    if a < b { steps_sum_mono(s, a, b - 1); } else if a > 1 { steps_sum_mono(s, a - 1, a - 1); }
}
pub open spec fn fri_ok(c: &Config, lc: nat, nvf: nat) -> bool {
    2 <= c.n_layers@ <= 15
    && c.log_last_layer_degree_bound@ <= 15
    && c.fri_step_sizes@[0]@ == 0
    && (forall|i: int| 1 <= i < c.n_layers@ ==> layer_ok(c, i, nvf))
    && c.log_input_size@ as int == steps_sum(c.fri_step_sizes@, c.n_layers@ as int) + c.log_last_layer_degree_bound@ + lc
}

impl Config {
    pub fn validate(
        &self,
        log_n_cosets: Felt,
        n_verifier_friendly_commitment_layers: Felt,
    ) -> (r: Result<Felt, Error>)
        requires self.fri_step_sizes@.len() >= 1 ==> (self.n_layers@ <= 15 ==> self.fri_step_sizes@.len() >= self.n_layers@ && self.inner_layers@.len() + 1 >= self.n_layers@),
            1 <= log_n_cosets@ <= 16,
        ensures
            self.fri_step_sizes@.len() >= 1 ==> (r.is_ok() <==> fri_ok(self, log_n_cosets@, n_verifier_friendly_commitment_layers@)),
            r.is_ok() ==> r->Ok_0@ as int == steps_sum(self.fri_step_sizes@, self.n_layers@ as int) + self.log_last_layer_degree_bound@,
    {
        broadcast use felt_of_view, felt_range;
        if self.n_layers < MIN_FRI_LAYERS.into() || self.n_layers > MAX_FRI_LAYERS.into() {
            return Err(Error::OutOfBounds { min: MIN_FRI_LAYERS, max: MAX_FRI_LAYERS });
        }
        if self.log_last_layer_degree_bound < Felt::ZERO
            || self.log_last_layer_degree_bound > MAX_LAST_LAYER_LOG_DEGREE_BOUND.into()
        {
            return Err(Error::OutOfBounds { min: 0, max: MAX_LAST_LAYER_LOG_DEGREE_BOUND });
        }
        if *self.fri_step_sizes.first().ok_or(Error::FirstFriStepInvalid)? != Felt::ZERO {
            return Err(Error::FirstFriStepInvalid);
        }

        let n_layers: usize = self.n_layers.to_bigint().try_into()?;
        let mut sum_of_step_sizes = Felt::ZERO;
        let mut log_input_size = self.log_input_size;

        for i in 1..n_layers
            invariant
                n_layers as nat == self.n_layers@, 2 <= n_layers <= 15,
                self.fri_step_sizes@.len() >= n_layers, self.inner_layers@.len() + 1 >= n_layers,
                sum_of_step_sizes@ as int == steps_sum(self.fri_step_sizes@, i as int),
                sum_of_step_sizes@ <= 4 * (i - 1),
                log_input_size@ == ((self.log_input_size@ + P) - sum_of_step_sizes@) as nat % P,
                forall|j: int| 1 <= j < i ==> layer_ok_mod(self, j, n_verifier_friendly_commitment_layers@),
        {
            broadcast use felt_of_view, felt_range;
            let fri_step = self.fri_step_sizes[i];
            let table_commitment = &self.inner_layers[i - 1];
            log_input_size -= fri_step;
            sum_of_step_sizes += fri_step;

            if fri_step < MIN_FRI_STEP.into() || fri_step > MAX_FRI_STEP.into() {
                proof { assert(!layer_ok(self, i as int, n_verifier_friendly_commitment_layers@)); }
                return Err(Error::OutOfBounds { min: MIN_FRI_STEP, max: MAX_FRI_STEP });
            }
            let fri_step: u64 = fri_step.to_bigint().try_into()?;
            let expected_n_columns = Felt::from(2).pow(fri_step);
            if table_commitment.n_columns != expected_n_columns {
                proof { assert(!layer_ok(self, i as int, n_verifier_friendly_commitment_layers@)); }
                return Err(Error::InvalidColumnCount {
                    expected: expected_n_columns,
                    actual: table_commitment.n_columns,
                });
            }
            proof {
                assert(steps_sum(self.fri_step_sizes@, i as int + 1) == steps_sum(self.fri_step_sizes@, i as int) + self.fri_step_sizes@[i as int]@);
                steps_sum_mono(self.fri_step_sizes@, 1, i as int + 1);
                if layer_ok(self, i as int, n_verifier_friendly_commitment_layers@) {
                    assert(layer_ok_mod(self, i as int, n_verifier_friendly_commitment_layers@));
                }
            }
            let vres = table_commitment
                .vector
                .validate(log_input_size, n_verifier_friendly_commitment_layers);
            proof { if vres.is_err() { assert(!layer_ok(self, i as int, n_verifier_friendly_commitment_layers@)); } }
            vres?;
        }
        let log_expected_input_degree = sum_of_step_sizes + self.log_last_layer_degree_bound;
        if log_expected_input_degree + log_n_cosets != self.log_input_size {
            return Err(Error::LogInputSizeMismatch {
                expected: log_expected_input_degree + log_n_cosets,
                actual: self.log_input_size,
            });
        }

        proof {
            steps_sum_mono(self.fri_step_sizes@, 1, self.n_layers@ as int);
            assert forall|j: int| 1 <= j < self.n_layers@ implies #[trigger] layer_ok(self, j, n_verifier_friendly_commitment_layers@) by {
                assert(layer_ok_mod(self, j, n_verifier_friendly_commitment_layers@));
                steps_sum_mono(self.fri_step_sizes@, j + 1, self.n_layers@ as int);
                steps_sum_mono(self.fri_step_sizes@, 1, j + 1);
            }
        }
        Ok(log_expected_input_degree)
    }

}
}
fn main() {}
