// Probe: the real compute_root_from_queries text with only a decreases clause spliced in (DESIGN.md section 2).
// Not compilable on its own (Felt shim omitted).
pub struct QueryWithDepth { pub index: Felt, pub value: Felt, pub depth: Felt }
pub enum Error { MisMatch { value: Felt, expected: Felt }, AuthenticationInvalid, RootInvalid, IndexInvalid }
pub fn compute_root_from_queries(
    mut queue: Vec<QueryWithDepth>,
    start: usize,
    n_verifier_friendly_layers: Felt,
    authentications: Vec<Felt>,
    auth_start: usize,
) -> (r: Result<Felt, Error>)
    decreases authentications@.len() - auth_start, queue@.len() - start
{
    let current = queue.get(start).ok_or(Error::IndexInvalid)?;

    if current.index == Felt::ONE {
        // root
        Ok(current.value)
    } else {
        let (parent, bit) = current.index.div_rem(&NonZeroFelt::TWO);
        let is_verifier_friendly = n_verifier_friendly_layers >= current.depth;

        let hash = if bit == Felt::ZERO {
            if start + 1 != queue.len() {
                let next = queue.get(start + 1).ok_or(Error::IndexInvalid)?;
                if current.index + 1 == next.index {
                    // next is a sibling of current
                    let hash =
                        hash_friendly_unfriendly(current.value, next.value, is_verifier_friendly);
                    queue.push(QueryWithDepth {
                        index: parent,
                        value: hash,
                        depth: current.depth - 1,
                    });
                    return compute_root_from_queries(
                        queue,
                        start + 2,
                        n_verifier_friendly_layers,
                        authentications,
                        auth_start,
                    );
                }
            }
            hash_friendly_unfriendly(
                current.value,
                *authentications.get(auth_start).ok_or(Error::IndexInvalid)?,
                is_verifier_friendly,
            )
        } else {
            hash_friendly_unfriendly(
                *authentications.get(auth_start).ok_or(Error::IndexInvalid)?,
                current.value,
                is_verifier_friendly,
            )
        };

        queue.push(QueryWithDepth { index: parent, value: hash, depth: current.depth - 1 });

        compute_root_from_queries(
            queue,
            start + 1,
            n_verifier_friendly_layers,
            authentications,
            auth_start + 1,
        )
    }
}


}
fn main(){}
