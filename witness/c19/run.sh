#!/bin/bash
# Builds the REAL cli/src/transform.rs and proof_parser/src/stark_proof.rs (by #[path], nothing copied) in a scratch crate
# and runs the witness tests of the C19 known findings.  Every test PASSES while the defect is present.
# (The cli / proof_parser crates themselves do not build offline: clap, anyhow, regex are not in the registry.)
set -e
REPO=${VERIF_REPO:-/repo}
d=$(mktemp -d /tmp/c19w_XXXX)
trap 'rm -rf $d' EXIT
mkdir -p $d/pp/src $d/w/src
cat > $d/pp/Cargo.toml <<T
[package]
name = "swiftness_proof_parser"
version = "0.1.2"
edition = "2021"
[dependencies]
num-bigint = { version = "0.4.4", features = ["serde"] }
serde = { version = "1.0", features = ["derive"] }
[workspace]
T
cat > $d/pp/src/lib.rs <<T
#[path = "$REPO/proof_parser/src/stark_proof.rs"]
pub mod stark_proof;
pub use stark_proof::*;
T
cat > $d/w/Cargo.toml <<T
[package]
name = "c19w"
version = "0.1.0"
edition = "2021"
[dependencies]
num-bigint = "0.4.4"
swiftness_proof_parser = { path = "../pp" }
swiftness_air = { path = "$REPO/crates/air", default-features = false, features = ["std", "recursive", "keccak_160_lsb", "stone5"] }
swiftness_commitment = { path = "$REPO/crates/commitment", default-features = false, features = ["std", "keccak_160_lsb"] }
swiftness_fri = { path = "$REPO/crates/fri", default-features = false, features = ["std", "keccak_160_lsb"] }
swiftness_pow = { path = "$REPO/crates/pow", default-features = false, features = ["std", "keccak"] }
swiftness_stark = { path = "$REPO/crates/stark", default-features = false, features = ["std", "recursive", "keccak_160_lsb", "stone5"] }
[workspace]
T
cat > $d/w/src/lib.rs <<T
#[path = "$REPO/cli/src/transform.rs"]
pub mod transform;
#[cfg(test)]
#[path = "$(dirname $(readlink -f $0))/c19_tests.rs"]
mod c19_tests;
T
cp $REPO/Cargo.lock $d/w/Cargo.lock 2>/dev/null || true
cd $d/w
CARGO_NET_OFFLINE=true CARGO_TARGET_DIR=$d/target cargo +1.82.0 test --offline -- --nocapture --test-threads 1 2>&1 | grep -E "^test |KF C19|test result|error|panicked" 
