// Witness tests for the C19 known findings, run against the real cli/src/transform.rs (see run.sh).
use crate::transform::TransformTo;
use num_bigint::BigUint;
use swiftness_proof_parser::stark_proof as sp;

fn pi() -> sp::PublicInput {
    sp::PublicInput {
        log_n_steps: 10, range_check_min: 0, range_check_max: 1, layout: BigUint::from(7u32),
        dynamic_params: Default::default(), n_segments: 0, segments: vec![], padding_addr: 1,
        padding_value: BigUint::from(2u32), main_page_len: 0, main_page: vec![], n_continuous_pages: 0,
        continuous_page_headers: vec![],
    }
}

/// KF: difficulty above 255 is truncated to its low 8 bits (286 -> 30, inside the accepted 20..=50 window), not rejected
#[test]
fn kf_c19_pow_bits_truncated() {
    let c: swiftness_pow::config::Config = sp::ProofOfWorkConfig { n_bits: 286 }.transform_to();
    println!("KF C19a: file says proof_of_work_bits = 286, verifier gets n_bits = {}", c.n_bits);
    assert_eq!(c.n_bits, 30);
    assert!(c.validate().is_ok());
}

/// KF: a nonce of 2^64 + 5 is truncated to 5
#[test]
fn kf_c19_nonce_truncated() {
    let n = (BigUint::from(1u8) << 64) + BigUint::from(5u8);
    let u: swiftness_pow::pow::UnsentCommitment = sp::ProofOfWorkUnsentCommitment { nonce: n }.transform_to();
    println!("KF C19b: file says nonce = 2^64 + 5, verifier gets nonce = {}", u.nonce);
    assert_eq!(u.nonce, 5);
}

/// KF: a nonce of 0 crashes (to_u64_digits() of zero is empty, [0] indexes out of bounds)
#[test]
fn kf_c19_nonce_zero_panics() {
    let r = std::panic::catch_unwind(|| {
        let _u: swiftness_pow::pow::UnsentCommitment = sp::ProofOfWorkUnsentCommitment { nonce: BigUint::from(0u8) }.transform_to();
    });
    println!("KF C19c: nonce = 0 -> panicked = {}", r.is_err());
    assert!(r.is_err());
}

/// KF: a dynamic_params object with a number of entries other than 340 crashes (assert_eq! in From<Vec<usize>>)
#[test]
fn kf_c19_dynamic_params_count_panics() {
    let r = std::panic::catch_unwind(|| {
        let mut p = pi();
        p.dynamic_params.insert("add_mod_a0_suboffset".to_string(), 1);
        p.dynamic_params.insert("add_mod_a1_suboffset".to_string(), 2);
        let _v: swiftness_air::public_memory::PublicInput = p.transform_to();
    });
    println!("KF C19d: 2 dynamic params -> panicked = {}", r.is_err());
    assert!(r.is_err());
}

/// KF: continuous page headers computed by the parser are dropped (the verifier-side vector is always empty)
#[test]
fn kf_c19_continuous_pages_dropped() {
    let mut p = pi();
    p.n_continuous_pages = 1;
    p.continuous_page_headers = vec![BigUint::from(100u8), BigUint::from(3u8), BigUint::from(77u8), BigUint::from(9u8)];
    let v: swiftness_air::public_memory::PublicInput = p.transform_to();
    println!("KF C19e: 1 continuous page header in the parsed proof -> verifier gets {}", v.continuous_page_headers.len());
    assert_eq!(v.continuous_page_headers.len(), 0);
}
