#!/bin/bash
# Runs witness/kf_tests.rs against a SCRATCH copy of the repository (never /repo itself): the file is dropped in as
# crates/stark/src/tests/kf_witness.rs.  kf_* tests PASS while the recorded defect is present; fixed_* tests pass once repaired.
set -e
REPO=${VERIF_REPO:-/repo}
d=$(mktemp -d /tmp/kfw_XXXX)
trap 'rm -rf $d' EXIT
rsync -a --exclude target --exclude .git $REPO/ $d/
cp "$(dirname $(readlink -f $0))/kf_tests.rs" $d/crates/stark/src/tests/kf_witness.rs
echo "pub mod kf_witness;" >> $d/crates/stark/src/tests/mod.rs
cd $d
CARGO_TARGET_DIR=$d/target cargo test -p swiftness_stark --offline -- kf_witness --nocapture --test-threads 1 2>&1 | grep -E "^test |KF C|fixed C|test result|^error" 
