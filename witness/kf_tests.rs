// Witness tests for the KNOWN FINDINGS (genuine defects recorded, not repaired).
// Dropped as `crates/stark/src/tests/kf_witness.rs` into a SCRATCH copy of the workspace by witness/run_kf.sh;
// every test PASSES while the defect is present (it asserts the defective behaviour).
use std::println;
extern crate alloc;
use starknet_crypto::Felt;
use swiftness_air::{
    domains::StarkDomains,
    fixtures::public_input,
    layout::{recursive::Layout, LayoutTrait},
};

/// FIXED (d0bb0cf), kept as a regression witness: builtin capacity was computed with field_div: a trace shorter than the
/// row ratio (log_n_steps = 5: trace 512 rows, pedersen needs 2048 rows per instance) accepted 1000 pedersen instances
#[test]
fn fixed_c14_builtin_capacity_short_trace() {
    let mut pi = public_input::get();
    pi.log_n_steps = Felt::from(5u64);
    pi.segments[3].stop_ptr = pi.segments[3].begin_addr + Felt::from(3000u64);
    pi.segments[4].stop_ptr = pi.segments[4].begin_addr;
    pi.segments[5].stop_ptr = pi.segments[5].begin_addr;
    let d = StarkDomains::new(Felt::from(9u64), Felt::from(2u64));
    let r = Layout::validate_public_input(&pi, &d);
    println!("fixed C14a: trace of 512 rows, 1000 pedersen instances declared (the trace holds none): validate ok = {:?}", r.is_ok());
    assert!(r.is_err());
}

/// FIXED (0736463), regression witness (no panic any more): assert!(n_pedersen_hash_copies < u128::MAX) was reachable after validation (log_n_steps < 7)
#[test]
fn fixed_c18_pedersen_copies_assert() {
    let r = std::panic::catch_unwind(|| {
        let mut pi = public_input::get();
        pi.log_n_steps = Felt::from(6u64);
        let d = StarkDomains::new(Felt::from(10u64), Felt::from(2u64));
        let c = crate::fixtures::commitment::get();
        let mask = alloc::vec![Felt::ONE; Layout::MASK_SIZE];
        let coeffs = alloc::vec![Felt::ONE; Layout::N_CONSTRAINTS];
        let _ = Layout::eval_composition_polynomial(&c.traces.interaction_elements, &pi, &mask, &coeffs,
            &Felt::from(12345u64), &d.trace_domain_size, &d.trace_generator);
    });
    println!("fixed C18a: log_n_steps = 6 (64 steps, pedersen ratio 128) -> eval_composition_polynomial panicked = {}", r.is_err());
    assert!(r.is_ok());
}

/// KF C18 get_public_memory_product_ratio: assert!(total_length <= public_memory_column_size) with a long main page
#[test]
fn kf_c18_public_memory_assert() {
    let r = std::panic::catch_unwind(|| {
        let mut pi = public_input::get();
        pi.log_n_steps = Felt::from(5u64);
        let d = StarkDomains::new(Felt::from(9u64), Felt::from(2u64));
        // memory column has 2^9/16 = 32 cells; the fixture's main page has 46
        let n = pi.main_page.0.len();
        let c = crate::fixtures::commitment::get();
        let mask = alloc::vec![Felt::ONE; Layout::MASK_SIZE];
        let coeffs = alloc::vec![Felt::ONE; Layout::N_CONSTRAINTS];
        println!("main page cells = {}", n);
        let _ = Layout::eval_composition_polynomial(&c.traces.interaction_elements, &pi, &mask, &coeffs,
            &Felt::from(12345u64), &d.trace_domain_size, &d.trace_generator);
    });
    println!("KF C18b: main page longer than the memory column -> panicked = {}", r.is_err());
    assert!(r.is_err());
}

/// KF C14 verify_public_input: program / output cells are hashed positionally, addresses are never looked at
#[test]
fn kf_c14_positional_hashing() {
    let pi = public_input::get();
    let h0 = Layout::verify_public_input(&pi).unwrap();
    let mut pi2 = public_input::get();
    pi2.main_page.0[3].address = pi2.main_page.0[3].address + Felt::from(1000u64);
    let n = pi2.main_page.0.len();
    pi2.main_page.0[n - 1].address = pi2.main_page.0[n - 1].address + Felt::from(777u64);
    let h1 = Layout::verify_public_input(&pi2).unwrap();
    println!("KF C14b: addresses of a program cell and of an output cell changed; hashes unchanged = {}", h0 == h1);
    assert!(h0 == h1);
}

/// FIXED (9ea2566), regression witness (no panic any more): output segment longer than the main page -> slice start underflow
#[test]
fn fixed_c18_output_len_underflow() {
    let r = std::panic::catch_unwind(|| {
        let mut pi = public_input::get();
        pi.segments[2].stop_ptr = pi.segments[2].begin_addr + Felt::from(100000u64);
        let _ = Layout::verify_public_input(&pi);
    });
    println!("fixed C18c: output segment of 100000 cells -> panicked = {}", r.is_err());
    assert!(r.is_ok());
}

/// FIXED (9ea2566), regression witness (no panic any more): output_len * 2 overflowed usize
#[test]
fn fixed_c18_output_len_overflow() {
    let r = std::panic::catch_unwind(|| {
        let mut pi = public_input::get();
        pi.segments[2].stop_ptr = pi.segments[2].begin_addr + Felt::from(u64::MAX);
        let _ = Layout::verify_public_input(&pi);
    });
    println!("fixed C18d: output segment of 2^64-1 cells -> panicked = {}", r.is_err());
    assert!(r.is_ok());
}

/// FIXED (d0bb0cf), regression witness: range-check and bitwise builtins (row ratio 128): a trace of 64 rows accepted 1000 instances of each
#[test]
fn fixed_c14_builtin_capacity_short_trace_rc_bitwise() {
    let mut pi = public_input::get();
    pi.log_n_steps = Felt::from(2u64);
    pi.segments[3].stop_ptr = pi.segments[3].begin_addr;
    pi.segments[4].stop_ptr = pi.segments[4].begin_addr + Felt::from(1000u64);
    pi.segments[5].stop_ptr = pi.segments[5].begin_addr + Felt::from(5000u64);
    let d = StarkDomains::new(Felt::from(6u64), Felt::from(2u64));
    let r = Layout::validate_public_input(&pi, &d);
    println!("fixed C14c: trace of 64 rows, 1000 range-check and 1000 bitwise instances declared (the trace holds none): validate ok = {:?}", r.is_ok());
    assert!(r.is_err());
}
