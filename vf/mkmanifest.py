#!/usr/bin/env python3
"""Regenerate MANIFEST.json from vf/units.py (PROPS, NOT_APPLICABLE)."""
import json, os, sys
sys.path.insert(0, os.path.dirname(os.path.abspath(__file__)))
import units as U

ROOT = os.path.dirname(os.path.dirname(os.path.abspath(__file__)))
claimed = sorted(U.PROPS)
m = {
    "version": 1,
    "setup_cmd": "true",
    "hooks": {"guard": "none",
              "enable": "no hooks: the checks read /repo's source text on every run and never build it with extra flags",
              "baseline_off_cmd": "cd /repo && cargo test --workspace --no-fail-fast --offline",
              "source_commits": [], "add_only": True},
    "engines": [{"name": "vf", "path": "/verif/vf", "serves_properties": claimed,
                 "kind_free_text": "contract-based deductive verification: Verus on the real function text extracted from /repo on every run (vf/assemble.py: erasure-checked ghost transplant), trusted prelude for external crates, canary vacuity guards, reproducibility re-run"}],
    "checks": [],
    "not_applicable": [],
    "notes": "See DESIGN.md. exit 0 = all obligations of the property discharged; exit 1 + VIOLATION = a named obligation fails reproducibly on the code in /repo; exit 2 = undecided (lost anchor, resource limit, vacuity canary). Genuine defects found and repaired are listed in known_findings.json (fixed:).",
}
for p in claimed:
    info = U.PROPS[p]
    m['checks'].append({
        "property_id": p,
        "quick_cmd": "./check %s --tier quick" % p,
        "thorough_cmd": "./check %s --tier thorough" % p,
        "evidence_file": "/verif/evidence/%s.json" % p,
        "replay_cmd_template": "./check %s --replay {path}" % p,
        "engine": "vf",
        "level_claimed": {"category": "proof", "text": info['claim'], "design_ref": "DESIGN.md section 4, %s" % p},
        "level_note": info.get('note', '') + " Trusted base: Verus+Z3; assumed contracts for Felt/NonZeroFelt/bigint (A-felt), hashes as uninterpreted functions (A-hash), std items (A-std), hoisted iterator expressions (A-iter), derived Clone (A-clone); the extractor's logged normalisations. Every assumption is listed in the evidence file.",
        "technique": "contract-based deductive verification (Verus/Z3) of the real function bodies: " + info['technique'],
    })
for p, reason in sorted(U.NOT_APPLICABLE.items()):
    if p not in U.PROPS:
        m['not_applicable'].append({"property_id": p, "reason": reason})
json.dump(m, open(os.path.join(ROOT, 'MANIFEST.json'), 'w'), indent=1)
print('claimed', claimed, 'not_applicable', [x['property_id'] for x in m['not_applicable']])
