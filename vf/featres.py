"""Cargo feature wiring, read from the repository's Cargo.toml files on every run.

The feature set of a unit is what a consumer selects ON THE TOP-LEVEL VERIFIER CRATE (crates/stark, `swiftness_stark`): that
set drives the SPEC side of the templates (//@iffeature).  The CODE side - which `#[cfg(feature = ..)]` alternative of a
repository file is the code that runs - is resolved per crate from the [features] tables exactly as cargo does (feature
closure over "name", "dep/name", "dep?/name"; "dep:name" ignored; `default` of a dependency added unless the dependency is
declared with default-features = false).  A manifest that forwards the wrong feature is therefore verified as what it builds."""
import os
import re
try:
    import tomllib
except ImportError:  # pragma: no cover
    tomllib = None

TOP = 'swiftness_stark'
_cache = {}


def _load(repo):
    if repo in _cache:
        return _cache[repo]
    ws = tomllib.load(open(os.path.join(repo, 'Cargo.toml'), 'rb'))
    wsdeps = ws.get('workspace', {}).get('dependencies', {})
    pk = {}      # package name -> dict(dir, features, deps{name: default_features(bool)})
    for member in ws.get('workspace', {}).get('members', []):
        for d in ([member] if '*' not in member else
                  [os.path.join(os.path.dirname(member), x) for x in sorted(os.listdir(os.path.join(repo, os.path.dirname(member))))]):
            f = os.path.join(repo, d, 'Cargo.toml')
            if not os.path.exists(f):
                continue
            try:
                t = tomllib.load(open(f, 'rb'))
            except Exception as e:
                raise RuntimeError('cannot parse %s: %s' % (f, e))
            name = t.get('package', {}).get('name')
            if not name:
                continue
            deps = {}
            for dn, spec in t.get('dependencies', {}).items():
                df = True
                if isinstance(spec, dict):
                    if spec.get('workspace'):
                        w = wsdeps.get(dn, {})
                        df = w.get('default-features', True) if isinstance(w, dict) else True
                    if 'default-features' in spec:
                        df = spec['default-features']
                    feats = list(spec.get('features', []))
                    if spec.get('workspace') and isinstance(wsdeps.get(dn), dict):
                        feats += list(wsdeps[dn].get('features', []))
                else:
                    feats = []
                deps[spec.get('package', dn) if isinstance(spec, dict) else dn] = dict(default=df, features=feats, optional=isinstance(spec, dict) and spec.get('optional', False))
            pk[name] = dict(dir=d.rstrip('/'), features=t.get('features', {}), deps=deps)
    _cache[repo] = pk
    return pk


def top_features(repo):
    return set(_load(repo).get(TOP, {}).get('features', {}).keys())


def resolve(repo, selected):
    """selected: cargo features chosen on TOP (no defaults).  Returns {package: set(features)} for workspace packages."""
    pk = _load(repo)
    if TOP not in pk:
        raise RuntimeError('top-level crate %s not found in the workspace' % TOP)
    on = {}
    active = set()
    work = []

    def activate(p):
        if p in active or p not in pk:
            return
        active.add(p)
        on.setdefault(p, set())
        for dn, d in pk[p]['deps'].items():
            if dn in pk and not d['optional']:
                activate(dn)
                if d['default']:
                    work.append((dn, 'default'))
                for f in d['features']:
                    work.append((dn, f))

    activate(TOP)
    for f in selected:
        work.append((TOP, f))
    while work:
        p, f = work.pop()
        if p not in pk:
            continue
        if p not in active:
            activate(p)
        if f in on[p]:
            continue
        if f not in pk[p]['features'] and f != 'default':
            continue      # cargo would reject an unknown feature; optional-dependency names are not used as cfg here
        on[p].add(f)
        for item in pk[p]['features'].get(f, []):
            if item.startswith('dep:'):
                continue
            m = re.match(r'^([^/?]+)\??/(.+)$', item)
            if m:
                work.append((m.group(1), m.group(2)))
            else:
                work.append((p, item))
    return on


def package_of(repo, path):
    pk = _load(repo)
    best = None
    for name, d in pk.items():
        if path.startswith(d['dir'] + '/') and (best is None or len(d['dir']) > len(pk[best]['dir'])):
            best = name
    return best


def code_features(repo, path, unit_features):
    """feature set under which the cfg alternatives of repository file `path` are resolved"""
    if tomllib is None:
        return unit_features
    p = package_of(repo, path)
    pk = _load(repo)
    if p is None or TOP not in pk:
        return unit_features
    sel = set(unit_features) & top_features(repo)
    on = resolve(repo, sel)
    if p not in on:
        return unit_features      # not in the verifier crate's dependency graph (cli, proof_parser): flat set
    return set(on[p])


if __name__ == '__main__':
    import sys
    repo = os.environ.get('VERIF_REPO', '/repo')
    sel = set(sys.argv[1:]) or {'std', 'recursive', 'keccak_160_lsb', 'stone5'}
    for p, fs in sorted(resolve(repo, sel).items()):
        print(p, sorted(fs))
