#!/usr/bin/env python3
"""Print a //@repo region skeleton (normalised repository text) for an item: starting point for annotation.
usage: gen_region.py <file> <kind> <key> [props=..] [rules=a,b] [features=f1,f2]"""
import sys, os, re
sys.path.insert(0, os.path.dirname(os.path.abspath(__file__)))
import assemble as A
import units as U

args = sys.argv[1:]
opts = dict(a.split('=', 1) for a in args[3:])
feats = set(opts.pop('features', '').split(',')) - {''} or U.DEFAULT_FEATURES
path, kind, key = args[:3]
src, toks, item = A.locate(path, kind, key, feats)
log = []
e = A.normalize(toks, item.start, item.end, feats, A.crate_mod_of(path), log)
for r in [x for x in opts.get('rules', '').split(',') if x]:
    import rules
    e = rules.apply(r, e, log)
# pretty print: keep the repository's own line structure and indentation
lines = src.split('\n')
out = []
cur_line = None
buf = ''
prev = None
for t in e:
    if t.line != cur_line:
        if cur_line is not None:
            out.append(buf)
        ind = re.match(r'\s*', lines[t.line - 1]).group(0) if 0 < t.line <= len(lines) else ''
        buf = ind + t.text
        cur_line = t.line
    else:
        glue = prev is not None and prev.end == t.start
        nospace = t.text in (',', ';', ')', ']', '.', '?', '::') or (prev is not None and prev.text in ('(', '[', '.', '::', '&', '!', '*') and prev.kind == 'p') or t.text in ('(', '[') and prev is not None and prev.kind == 'id'
        buf += ('' if glue or nospace else ' ') + t.text
    prev = t
out.append(buf)
extra = ' '.join('%s=%s' % kv for kv in opts.items())
print('//@repo %s %s %s %s' % (path, kind, key, extra))
print('\n'.join(out))
print('//@end')
