// ===================================================================================
// TRUSTED PRELUDE (A-iter): helpers that stand for hoisted iterator expressions (rules.py, kind H).
// Each helper's contract states the std semantics of the chain it replaces; the chain itself is unverified.
// ===================================================================================
pub mod hoist {
use vstd::prelude::*;
use crate::prelude::*;
use crate::hashes::*;

verus! {

/// `vec![&(digest + Felt::ONE)].into_iter().chain(val)` as an argument of poseidon_hash_many
pub struct ChainDigest<'a> { pub d: &'a Felt, pub val: &'a [Felt] }
impl<'a> PoseidonMsgs for ChainDigest<'a> {
    open spec fn msgs(self) -> Seq<nat> { seq![fadd(self.d@, 1)] + self.val@.map_values(|f: Felt| f@) }
}
pub fn chain_digest<'a>(d: &'a Felt, val: &'a [Felt]) -> (r: ChainDigest<'a>) ensures r.d == d, r.val == val { ChainDigest { d, val } }

} // verus!
} // mod hoist
