// ===================================================================================
// TRUSTED PRELUDE (A-iter): helpers that stand for hoisted iterator expressions (rules.py, kind H).
// Each helper's contract states the std semantics of the chain it replaces; the chain itself is unverified.
// ===================================================================================
pub mod hoist {
use vstd::prelude::*;
use crate::prelude::*;
use crate::hashes::*;

verus! {

/// `vec![&(digest + Felt::ONE)].into_iter().chain(val)` as an argument of poseidon_hash_many
pub struct ChainDigest<'a> { pub d: &'a Felt, pub val: &'a [Felt] }
impl<'a> PoseidonMsgs for ChainDigest<'a> {
    open spec fn msgs(self) -> Seq<nat> { seq![fadd(self.d@, 1)] + self.val@.map_values(|f: Felt| f@) }
}
pub fn chain_digest<'a>(d: &'a Felt, val: &'a [Felt]) -> (r: ChainDigest<'a>) ensures r.d == d, r.val == val { ChainDigest { d, val } }


// ---- Vec<Felt>::sort / dedup (N3 wrappers; std semantics assumed) ---------------------------------
pub open spec fn fv(s: Seq<Felt>) -> Seq<nat> { s.map_values(|f: Felt| f@) }
pub open spec fn sorted_nat(s: Seq<nat>) -> bool { forall|i: int, j: int| 0 <= i <= j < s.len() ==> s[i] <= s[j] }
pub open spec fn strictly_increasing(s: Seq<nat>) -> bool { forall|i: int, j: int| 0 <= i < j < s.len() ==> s[i] < s[j] }
/// `Vec::dedup`: removes consecutive repeated elements, keeping the first of each run
pub open spec fn dedup_seq(s: Seq<nat>) -> Seq<nat> decreases s.len() {
    if s.len() <= 1 { s } else if s[0] == s[1] { dedup_seq(s.skip(1)) } else { seq![s[0]] + dedup_seq(s.skip(1)) }
}
pub trait VecFeltX { fn sort_x(&mut self); fn dedup_x(&mut self); }
impl VecFeltX for Vec<Felt> {
    /// `[T]::sort` on field elements ordered by canonical representative: result sorted, same length, same elements
    #[verifier::external_body]
    fn sort_x(&mut self)
        ensures
            sorted_nat(fv(final(self)@)),
            final(self)@.len() == old(self)@.len(),
            forall|x: nat| fv(final(self)@).contains(x) <==> fv(old(self)@).contains(x),
    { unimplemented!() }
    #[verifier::external_body]
    fn dedup_x(&mut self)
        ensures fv(final(self)@) == dedup_seq(fv(old(self)@)),
    { unimplemented!() }
}


// ---- Vec::extend (N3 wrapper): appends the elements of the argument in order ---------------------------
pub trait ExtendX<A> { fn extend_x(&mut self, a: A); }
impl<'a> ExtendX<&'a [u8; 32]> for Vec<u8> {
    #[verifier::external_body]
    fn extend_x(&mut self, a: &'a [u8; 32]) ensures final(self)@ == old(self)@ + a@ { unimplemented!() }
}
impl<'a> ExtendX<&'a [Felt]> for Vec<Felt> {
    #[verifier::external_body]
    fn extend_x(&mut self, a: &'a [Felt]) ensures final(self)@ == old(self)@ + a@ { unimplemented!() }
}


// ---- v.into_iter().map(f).collect::<Vec<_>>() --------------------------------------------------------------
#[verifier::external_body]
pub fn vec_map<F: Fn(Felt) -> Felt>(v: Vec<Felt>, f: F) -> (r: Vec<Felt>)
    requires forall|i: int| 0 <= i < v@.len() ==> call_requires(f, (#[trigger] v@[i],)),
    ensures r@.len() == v@.len(), forall|i: int| 0 <= i < v@.len() ==> call_ensures(f, (v@[i],), #[trigger] r@[i]),
{ unimplemented!() }

// ---- generic form of vec_map (cli/src/transform.rs) ----------------------------------------------------------
#[verifier::external_body]
pub fn vec_map_g<T, U, F: Fn(T) -> U>(v: Vec<T>, f: F) -> (r: Vec<U>)
    requires forall|i: int| 0 <= i < v@.len() ==> call_requires(f, (#[trigger] v@[i],)),
    ensures r@.len() == v@.len(), forall|i: int| 0 <= i < v@.len() ==> call_ensures(f, (v@[i],), #[trigger] r@[i]),
{ unimplemented!() }

// ---- data.extend(slice.iter().flat_map(|x| x.to_bytes_be().to_vec())) ------------------------------------
/// concatenation of the 32-byte big-endian encodings
pub open spec fn concat_be32(s: Seq<nat>) -> Seq<u8> decreases s.len() {
    if s.len() == 0 { Seq::<u8>::empty() } else { concat_be32(s.drop_last()) + be32(s.last()) }
}
#[verifier::external_body]
pub fn extend_be_bytes(data: &mut Vec<u8>, slice: &[Felt])
    ensures final(data)@ == old(data)@ + concat_be32(fv(slice@)),
{ unimplemented!() }


// ---- s.iter().map(f).collect::<Vec<_>>() on a slice -----------------------------------------------------------
#[verifier::external_body]
pub fn slice_map<T, U, F: Fn(&T) -> U>(s: &[T], f: F) -> (r: Vec<U>)
    requires forall|i: int| 0 <= i < s@.len() ==> call_requires(f, (&#[trigger] s@[i],)),
    ensures r@.len() == s@.len(), forall|i: int| 0 <= i < s@.len() ==> call_ensures(f, (&s@[i],), #[trigger] r@[i]),
{ unimplemented!() }

// ---- v.extend(s.iter().flat_map(f))  ==  extend_concat(v, slice_map(s, f)) ------------------------------------------------
/// concatenation of a sequence of vectors
pub open spec fn concat_vecs<T>(ss: Seq<Vec<T>>) -> Seq<T> decreases ss.len() {
    if ss.len() == 0 { Seq::<T>::empty() } else { concat_vecs(ss.drop_last()) + ss.last()@ }
}
/// std: Extend::extend over a flattened iterator appends the elements of every chunk in order
#[verifier::external_body]
pub fn extend_concat<T>(v: &mut Vec<T>, chunks: &Vec<Vec<T>>)
    ensures final(v)@ == old(v)@ + concat_vecs(chunks@),
{ unimplemented!() }
/// std: flat_map(..).collect::<Vec<_>>()
#[verifier::external_body]
pub fn collect_concat<T>(chunks: &Vec<Vec<T>>) -> (r: Vec<T>)
    ensures r@ == concat_vecs(chunks@),
{ unimplemented!() }

// ---- v.drain(0..1).collect::<Vec<_>>() -----------------------------------------------------------------------
/// removes and returns the first element (std: `drain(0..1)` PANICS when the vector is empty, hence the precondition)
#[verifier::external_body]
pub fn drain_first<T>(v: &mut Vec<T>) -> (r: Vec<T>)
    requires old(v)@.len() >= 1,
    ensures r@ == seq![old(v)@[0]], final(v)@ == old(v)@.skip(1),
{ unimplemented!() }

// ---- v.extend(w.iter()) for Vec<Felt> -----------------------------------------------------------------------
#[verifier::external_body]
pub fn extend_from_iter(v: &mut Vec<Felt>, w: &Vec<Felt>)
    ensures final(v)@ == old(v)@ + w@,
{ unimplemented!() }

} // verus!
} // mod hoist
