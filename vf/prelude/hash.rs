// ===================================================================================
// TRUSTED PRELUDE (A-hash): hash functions are uninterpreted functions of their inputs.
// Functional contracts only say WHAT is hashed.  Collision resistance is idealised as
// injectivity in separate axioms (`axiom_*_inj`) that are NOT in any default broadcast
// group: binding lemmas must `broadcast use` them explicitly.
// ===================================================================================
pub mod hashes {
use vstd::prelude::*;
use crate::prelude::*;

verus! {

pub uninterp spec fn poseidon2(x: nat, y: nat) -> nat;
pub uninterp spec fn poseidon_many(s: Seq<nat>) -> nat;
pub uninterp spec fn pedersen(a: nat, b: nat) -> nat;
pub uninterp spec fn keccak256(b: Seq<u8>) -> Seq<u8>;
pub uninterp spec fn blake2s256(b: Seq<u8>) -> Seq<u8>;

pub broadcast axiom fn axiom_digest_len_keccak(b: Seq<u8>) ensures #[trigger] keccak256(b).len() == 32;
pub broadcast axiom fn axiom_digest_len_blake(b: Seq<u8>) ensures #[trigger] blake2s256(b).len() == 32;
pub broadcast group group_digest_len { axiom_digest_len_keccak, axiom_digest_len_blake }

// ---- the field-valued hashes return field elements (opt-in) ---------------------------
pub broadcast axiom fn axiom_poseidon_many_range(s: Seq<nat>) ensures #[trigger] poseidon_many(s) < P;
pub broadcast axiom fn axiom_poseidon2_range(a: nat, b: nat) ensures #[trigger] poseidon2(a, b) < P;
pub broadcast axiom fn axiom_pedersen_range(a: nat, b: nat) ensures #[trigger] pedersen(a, b) < P;

// ---- idealised collision resistance (opt-in) --------------------------------------
pub broadcast axiom fn axiom_poseidon2_inj(a: nat, b: nat, c: nat, d: nat)
    requires #[trigger] poseidon2(a, b) == #[trigger] poseidon2(c, d)
    ensures a == c, b == d;
pub broadcast axiom fn axiom_poseidon_many_inj(s: Seq<nat>, t: Seq<nat>)
    requires #[trigger] poseidon_many(s) == #[trigger] poseidon_many(t)
    ensures s == t;
pub broadcast axiom fn axiom_pedersen_inj(a: nat, b: nat, c: nat, d: nat)
    requires #[trigger] pedersen(a, b) == #[trigger] pedersen(c, d)
    ensures a == c, b == d;
pub broadcast axiom fn axiom_keccak_inj(s: Seq<u8>, t: Seq<u8>)
    requires #[trigger] keccak256(s) == #[trigger] keccak256(t)
    ensures s == t;
pub broadcast axiom fn axiom_blake_inj(s: Seq<u8>, t: Seq<u8>)
    requires #[trigger] blake2s256(s) == #[trigger] blake2s256(t)
    ensures s == t;

// ---- exec interfaces -----------------------------------------------------------------
#[verifier::external_body]
pub fn poseidon_hash(x: Felt, y: Felt) -> (r: Felt) ensures r@ == poseidon2(x@, y@) { unimplemented!() }

#[verifier::external_body]
pub fn pedersen_hash(x: &Felt, y: &Felt) -> (r: Felt) ensures r@ == pedersen(x@, y@) { unimplemented!() }

/// argument of `poseidon_hash_many` (`impl IntoIterator<Item = &Felt>` in starknet-crypto)
pub trait PoseidonMsgs: Sized { spec fn msgs(self) -> Seq<nat>; }
impl<'a> PoseidonMsgs for [&'a Felt; 2] {
    open spec fn msgs(self) -> Seq<nat> { seq![self[0]@, self[1]@] }
}
impl<'a> PoseidonMsgs for &'a Vec<Felt> {
    open spec fn msgs(self) -> Seq<nat> { self@.map_values(|f: Felt| f@) }
}
impl<'a> PoseidonMsgs for &'a [Felt] {
    open spec fn msgs(self) -> Seq<nat> { self@.map_values(|f: Felt| f@) }
}
#[verifier::external_body]
pub fn poseidon_hash_many<I: PoseidonMsgs>(m: I) -> (r: Felt) ensures r@ == poseidon_many(m.msgs()) { unimplemented!() }

/// output of `finalize()`
#[verifier::external_body]
pub struct Digest32 { _b: [u8; 32] }
impl View for Digest32 { type V = Seq<u8>; uninterp spec fn view(&self) -> Seq<u8>; }
impl Digest32 {
    #[verifier::external_body]
    pub fn to_vec(&self) -> (r: Vec<u8>) ensures r@ == self@ { unimplemented!() }
    #[verifier::external_body]
    pub fn as_slice(&self) -> (r: &[u8]) ensures r@ == self@ { unimplemented!() }
}

macro_rules! hasher {
    ($Name:ident, $f:ident) => {
        verus! {
        #[verifier::external_body]
        pub struct $Name { _b: u8 }
        impl View for $Name { type V = Seq<u8>; uninterp spec fn view(&self) -> Seq<u8>; }
        impl $Name {
            #[verifier::external_body]
            pub fn new() -> (r: Self) ensures r@ == Seq::<u8>::empty() { unimplemented!() }
            #[verifier::external_body]
            pub fn update(&mut self, data: &Vec<u8>) ensures final(self)@ == old(self)@ + data@ { unimplemented!() }
            #[verifier::external_body]
            pub fn finalize(self) -> (r: Digest32) ensures r@ == $f(self@), r@.len() == 32 { unimplemented!() }
        }
        }
    };
}
hasher!(Keccak256, keccak256);
hasher!(Blake2s256, blake2s256);

} // verus!
} // mod hashes
