// ===================================================================================
// TRUSTED PRELUDE (A-std): contracts for std items that vstd does not model.
// ===================================================================================
pub mod stdx {
use vstd::prelude::*;
use crate::prelude::pow2;

verus! {

/// big-endian bytes of a u64
pub open spec fn be8(x: u64) -> Seq<u8> {
    seq![
        ((x >> 56) & 0xff) as u8, ((x >> 48) & 0xff) as u8, ((x >> 40) & 0xff) as u8, ((x >> 32) & 0xff) as u8,
        ((x >> 24) & 0xff) as u8, ((x >> 16) & 0xff) as u8, ((x >> 8) & 0xff) as u8, (x & 0xff) as u8,
    ]
}
/// N3 wrapper: `x.to_be_bytes()` is renamed to `x.to_be_bytes_x()` by the extractor because the
/// std signature mentions an anonymous const that `assume_specification` cannot name.
pub trait ToBeBytesX { fn to_be_bytes_x(self) -> [u8; 8]; }
impl ToBeBytesX for u64 {
    #[verifier::external_body]
    fn to_be_bytes_x(self) -> (r: [u8; 8]) ensures r@ == be8(self) { self.to_be_bytes() }
}

/// little-endian counterpart (specified so that a change of byte order is DECIDED against the big-endian statement, not lost as
/// an unknown method)
pub open spec fn le8(x: u64) -> Seq<u8> {
    seq![
        (x & 0xff) as u8, ((x >> 8) & 0xff) as u8, ((x >> 16) & 0xff) as u8, ((x >> 24) & 0xff) as u8,
        ((x >> 32) & 0xff) as u8, ((x >> 40) & 0xff) as u8, ((x >> 48) & 0xff) as u8, ((x >> 56) & 0xff) as u8,
    ]
}
pub trait ToLeBytesX { fn to_le_bytes_x(self) -> [u8; 8]; }
impl ToLeBytesX for u64 {
    #[verifier::external_body]
    fn to_le_bytes_x(self) -> (r: [u8; 8]) ensures r@ == le8(self) { self.to_le_bytes() }
}

/// bit reversal of the n low bits of x (arithmetic definition)
pub open spec fn bitrev(x: nat, n: nat) -> nat decreases n {
    if n == 0 { 0 } else { (x % 2) * pow2((n - 1) as nat) + bitrev(x / 2, (n - 1) as nat) }
}
pub open spec fn bitrev64(x: u64) -> nat { bitrev(x as nat, 64) }
pub assume_specification[ u64::reverse_bits ](x: u64) -> (r: u64) ensures r as nat == bitrev64(x);

pub assume_specification<T: Clone>[ <[T]>::to_vec ](s: &[T]) -> (r: Vec<T>)
    ensures r@.len() == s@.len(), forall|i: int| 0 <= i < s@.len() ==> call_ensures(T::clone, (&s@[i],), #[trigger] r@[i]);

pub assume_specification<T, E, U>[ Result::<T, E>::and::<U> ](a: Result<T, E>, b: Result<U, E>) -> (r: Result<U, E>)
    ensures r == (match a { Ok(_) => b, Err(e) => Err(e) });
/// std: `a.or(b)` is `a` when `a` is Ok, else `b` (stated so that a change from `and` to `or` is decided, not lost as unsupported)
pub assume_specification<T, E, F>[ Result::<T, E>::or::<F> ](a: Result<T, E>, b: Result<T, F>) -> (r: Result<T, F>)
    ensures r == (match a { Ok(v) => Ok(v), Err(_) => b });

} // verus!
} // mod stdx
