// ===================================================================================
// TRUSTED PRELUDE for property C16 (coefficient typing).  In the autogen units the evaluators are extracted with
// `constraint_coefficients: &[Coeff]` and return type `Lin` (rewrite rules C16_retype_*).  A `Coeff` can only be
// multiplied by a `Felt` (giving a one-term `Lin` at the coefficient's position) and `Lin`s can only be added:
// if the UNCHANGED body type-checks, the result is a linear form in the coefficients whose other factors cannot
// mention a coefficient (parametricity).  The ghost state (lo, hi, count, czero) makes it exactly-once and ordered.
// ===================================================================================
pub mod coeff {
use vstd::prelude::*;
use vstd::std_specs::ops::*;
use crate::prelude::*;
verus! {
#[verifier::external_body]
#[derive(Clone, Copy)]
pub struct Coeff { _x: [u64; 4] }
impl Coeff { pub uninterp spec fn pos(&self) -> int; }
#[verifier::external_body]
pub struct Lin { _x: [u64; 4] }
impl Lin {
    /// smallest / one-past-largest coefficient position used, number of terms, constant part is zero
    pub uninterp spec fn lo(&self) -> int;
    pub uninterp spec fn hi(&self) -> int;
    pub uninterp spec fn count(&self) -> int;
    pub uninterp spec fn czero(&self) -> bool;
}
/// coefficient i sits at position i
pub open spec fn coeffs_ok(c: Seq<Coeff>, n: int) -> bool { c.len() == n && forall|i: int| 0 <= i < n ==> (#[trigger] c[i]).pos() == i }

// (no `Coeff * Felt`: a coefficient can only weight a numbered constraint value (CVal) or a DEEP term (Term), see below)
impl AddSpecImpl<Lin> for Lin {
    open spec fn obeys_add_spec() -> bool { false }
    /// terms are accumulated in strictly increasing coefficient position   [C16: no coefficient reused]
    open spec fn add_req(self, rhs: Lin) -> bool { self.hi() <= rhs.lo() }
    open spec fn add_spec(self, rhs: Lin) -> Lin { arbitrary() }
}
impl core::ops::Add<Lin> for Lin {
    type Output = Lin;
    #[verifier::external_body]
    fn add(self, rhs: Lin) -> (r: Lin)
        ensures r.lo() == self.lo(), r.hi() == rhs.hi(), r.count() == self.count() + rhs.count(), r.czero() == (self.czero() && rhs.czero())
    { unimplemented!() }
}
impl AddSpecImpl<Lin> for Felt {
    open spec fn obeys_add_spec() -> bool { false }
    open spec fn add_req(self, rhs: Lin) -> bool { true }
    open spec fn add_spec(self, rhs: Lin) -> Lin { arbitrary() }
}
impl core::ops::Add<Lin> for Felt {
    type Output = Lin;
    #[verifier::external_body]
    fn add(self, rhs: Lin) -> (r: Lin)
        ensures r.lo() == rhs.lo(), r.hi() == rhs.hi(), r.count() == rhs.count(), r.czero() == (self@ == 0 && rhs.czero())
    { unimplemented!() }
}
// ---- DEEP evaluator: which out-of-domain value a coefficient weights ------------------------------------------------------
// `oods_values` is retyped to `&[OodsVal]` (rule C16_retype_oods_values): an OodsVal can only be subtracted from a field element
// (giving a `Term` that remembers the value's position), a Term can only be divided by a non-zero field element, and
// `Coeff * Term` requires that coefficient and out-of-domain value have the SAME position: opening i is weighted by coefficient i.
#[verifier::external_body]
#[derive(Clone, Copy)]
pub struct OodsVal { _x: [u64; 4] }
impl OodsVal { pub uninterp spec fn pos(&self) -> int; }
#[verifier::external_body]
#[derive(Clone, Copy)]
pub struct Term { _x: [u64; 4] }
impl Term {
    pub uninterp spec fn pos(&self) -> int;
    #[verifier::external_body]
    pub fn field_div(&self, rhs: &NonZeroFelt) -> (r: Term) ensures r.pos() == self.pos() { unimplemented!() }
}
/// out-of-domain value i sits at position i
pub open spec fn oods_ok(c: Seq<OodsVal>, n: int) -> bool { c.len() == n && forall|i: int| 0 <= i < n ==> (#[trigger] c[i]).pos() == i }
impl SubSpecImpl<OodsVal> for Felt {
    open spec fn obeys_sub_spec() -> bool { false }
    open spec fn sub_req(self, rhs: OodsVal) -> bool { true }
    open spec fn sub_spec(self, rhs: OodsVal) -> Term { arbitrary() }
}
impl core::ops::Sub<OodsVal> for Felt {
    type Output = Term;
    #[verifier::external_body]
    fn sub(self, rhs: OodsVal) -> (r: Term) ensures r.pos() == rhs.pos() { unimplemented!() }
}
impl MulSpecImpl<Term> for Coeff {
    open spec fn obeys_mul_spec() -> bool { false }
    /// coefficient i weights the opening of out-of-domain value i   [C16, C01]
    open spec fn mul_req(self, rhs: Term) -> bool { self.pos() == rhs.pos() }
    open spec fn mul_spec(self, rhs: Term) -> Lin { arbitrary() }
}
impl core::ops::Mul<Term> for Coeff {
    type Output = Lin;
    #[verifier::external_body]
    fn mul(self, rhs: Term) -> (r: Lin)
        ensures r.lo() == self.pos(), r.hi() == self.pos() + 1, r.count() == 1, r.czero()
    { unimplemented!() }
}
// ---- composition evaluator: which constraint value a coefficient weights ----------------------------------------------------
// Rule C16_number_values wraps the K-th statement `let value = E;` of the evaluator as `cv(E, K)`: a CVal remembers its ordinal,
// and `Coeff * CVal` requires coefficient position == ordinal: constraint value K is weighted by coefficient K, so no constraint
// value is dropped, used twice, or weighted by another constraint's coefficient.
#[verifier::external_body]
#[derive(Clone, Copy)]
pub struct CVal { _x: [u64; 4] }
impl CVal { pub uninterp spec fn id(&self) -> int; }
#[verifier::external_body]
pub fn cv(x: Felt, k: usize) -> (r: CVal) ensures r.id() == k as int { unimplemented!() }
impl MulSpecImpl<CVal> for Coeff {
    open spec fn obeys_mul_spec() -> bool { false }
    /// coefficient i weights the i-th constraint value   [C16]
    open spec fn mul_req(self, rhs: CVal) -> bool { self.pos() == rhs.id() }
    open spec fn mul_spec(self, rhs: CVal) -> Lin { arbitrary() }
}
impl core::ops::Mul<CVal> for Coeff {
    type Output = Lin;
    #[verifier::external_body]
    fn mul(self, rhs: CVal) -> (r: Lin)
        ensures r.lo() == self.pos(), r.hi() == self.pos() + 1, r.count() == 1, r.czero()
    { unimplemented!() }
}
// A constraint value (or a bare coefficient) ADDED to the accumulator instead of being weighted still type-checks - as a part of
// the result that no coefficient weights (constant part non-zero / an untracked field element): the contract, not the type checker,
// reports it (seeded C16_coeff0_dropped: `total_sum + value`; C16w4_3: `total_sum + c[40] + value`).
impl AddSpecImpl<CVal> for Felt {
    open spec fn obeys_add_spec() -> bool { false }
    open spec fn add_req(self, rhs: CVal) -> bool { true }
    open spec fn add_spec(self, rhs: CVal) -> Felt { arbitrary() }
}
impl core::ops::Add<CVal> for Felt {
    type Output = Felt;
    #[verifier::external_body]
    fn add(self, rhs: CVal) -> (r: Felt) { unimplemented!() }     // an untracked field element (nothing is known about its value)
}
impl AddSpecImpl<CVal> for Lin {
    open spec fn obeys_add_spec() -> bool { false }
    open spec fn add_req(self, rhs: CVal) -> bool { true }
    open spec fn add_spec(self, rhs: CVal) -> Lin { arbitrary() }
}
impl core::ops::Add<CVal> for Lin {
    type Output = Lin;
    #[verifier::external_body]
    fn add(self, rhs: CVal) -> (r: Lin)
        ensures r.lo() == self.lo(), r.hi() == self.hi(), r.count() == self.count(), !r.czero()
    { unimplemented!() }
}
impl AddSpecImpl<Coeff> for Lin {
    open spec fn obeys_add_spec() -> bool { false }
    open spec fn add_req(self, rhs: Coeff) -> bool { self.hi() <= rhs.pos() }
    open spec fn add_spec(self, rhs: Coeff) -> Lin { arbitrary() }
}
impl core::ops::Add<Coeff> for Lin {
    type Output = Lin;
    #[verifier::external_body]
    fn add(self, rhs: Coeff) -> (r: Lin)     // the coefficient enters with weight one: linear, position used once
        ensures r.lo() == self.lo(), r.hi() == rhs.pos() + 1, r.count() == self.count() + 1, r.czero() == self.czero()
    { unimplemented!() }
}
/// ORACLE (C16): the value is a linear form with exactly one term per coefficient position 0..n-1 and no constant part
pub open spec fn lin_complete(r: Lin, n: int) -> bool { r.lo() >= 0 && r.hi() <= n && r.count() == n && r.czero() }
} // verus!
} // mod coeff
