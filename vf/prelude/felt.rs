// ===================================================================================
// TRUSTED PRELUDE (A-felt): assumed contracts for starknet-types-core 0.1.5 `Felt` /
// `NonZeroFelt`, num-bigint conversions.  Nothing in this file is verified; every
// `external_body` / `axiom` here is an assumption listed in the evidence files.
// ===================================================================================
pub mod prelude {
use vstd::prelude::*;
use vstd::std_specs::ops::*;
use vstd::std_specs::cmp::*;
use vstd::std_specs::convert::*;

verus! {

/// The Stark-252 prime 2^251 + 17*2^192 + 1.
pub spec const P: nat = 0x800000000000011000000000000000000000000000000000000000000000001nat;

pub open spec fn pow2(e: nat) -> nat decreases e { if e == 0 { 1 } else { 2 * pow2((e - 1) as nat) } }

/// square-and-multiply free definition: b^e mod P as a plain recursion (spec only)
pub open spec fn pow_mod(b: nat, e: nat) -> nat decreases e {
    if e == 0 { 1nat % P } else { (b * pow_mod(b, (e - 1) as nat)) % P }
}

pub open spec fn fadd(a: nat, b: nat) -> nat { (a + b) % P }
pub open spec fn fsub(a: nat, b: nat) -> nat { ((a + P) - b) as nat % P }
pub open spec fn fmul(a: nat, b: nat) -> nat { (a * b) % P }
pub open spec fn fneg(a: nat) -> nat { ((P - a) as nat) % P }
/// multiplicative inverse in the field (uninterpreted; characterised by axiom_finv)
pub uninterp spec fn finv(a: nat) -> nat;
pub open spec fn fdiv(a: nat, b: nat) -> nat { fmul(a, finv(b)) }

pub broadcast axiom fn axiom_finv(a: nat)
    requires 0 < a < P
    ensures #[trigger] finv(a) < P, fmul(a, finv(a)) == 1;

/// P is prime: the field has no zero divisors (mathematical fact about the Stark-252 prime, assumed)
pub broadcast axiom fn axiom_field_integral(a: nat, b: nat)
    requires 0 < a < P, 0 < b < P
    ensures #[trigger] fmul(a, b) != 0;

#[verifier::external_body]
#[derive(Clone, Copy)]
pub struct Felt { _x: [u64; 4] }

impl View for Felt { type V = nat; uninterp spec fn view(&self) -> nat; }
impl DeepView for Felt { type V = nat; open spec fn deep_view(&self) -> nat { self@ } }

pub uninterp spec fn felt_of(n: nat) -> Felt;
pub broadcast axiom fn axiom_felt_range(f: Felt) ensures #[trigger] f@ < P;
pub broadcast axiom fn axiom_felt_of_view(n: nat) requires n < P ensures #[trigger] felt_of(n)@ == n;
pub broadcast axiom fn axiom_felt_ext(f: Felt) ensures felt_of(#[trigger] f@) == f;
pub broadcast group group_felt { axiom_felt_range, axiom_felt_of_view, axiom_felt_ext }


// ------------------------------------------------------------------ operators
macro_rules! felt_binop {
    ($Tr:ident, $SpecTr:ident, $m:ident, $obeys:ident, $req:ident, $spec:ident, $f:ident, $L:ty, $R:ty) => {
        verus! {
        impl $SpecTr<$R> for $L {
            open spec fn $obeys() -> bool { true }
            open spec fn $req(self, rhs: $R) -> bool { true }
            open spec fn $spec(self, rhs: $R) -> Felt { felt_of($f(self@, rhs@)) }
        }
        impl core::ops::$Tr<$R> for $L {
            type Output = Felt;
            #[verifier::external_body]
            fn $m(self, rhs: $R) -> Felt { unimplemented!() }
        }
        }
    };
}
felt_binop!(Add, AddSpecImpl, add, obeys_add_spec, add_req, add_spec, fadd, Felt, Felt);
felt_binop!(Add, AddSpecImpl, add, obeys_add_spec, add_req, add_spec, fadd, Felt, &Felt);
felt_binop!(Add, AddSpecImpl, add, obeys_add_spec, add_req, add_spec, fadd, &Felt, Felt);
felt_binop!(Add, AddSpecImpl, add, obeys_add_spec, add_req, add_spec, fadd, &Felt, &Felt);
felt_binop!(Sub, SubSpecImpl, sub, obeys_sub_spec, sub_req, sub_spec, fsub, Felt, Felt);
felt_binop!(Sub, SubSpecImpl, sub, obeys_sub_spec, sub_req, sub_spec, fsub, Felt, &Felt);
felt_binop!(Sub, SubSpecImpl, sub, obeys_sub_spec, sub_req, sub_spec, fsub, &Felt, Felt);
felt_binop!(Sub, SubSpecImpl, sub, obeys_sub_spec, sub_req, sub_spec, fsub, &Felt, &Felt);
felt_binop!(Mul, MulSpecImpl, mul, obeys_mul_spec, mul_req, mul_spec, fmul, Felt, Felt);
felt_binop!(Mul, MulSpecImpl, mul, obeys_mul_spec, mul_req, mul_spec, fmul, Felt, &Felt);
felt_binop!(Mul, MulSpecImpl, mul, obeys_mul_spec, mul_req, mul_spec, fmul, &Felt, Felt);
felt_binop!(Mul, MulSpecImpl, mul, obeys_mul_spec, mul_req, mul_spec, fmul, &Felt, &Felt);

// Felt + u64 / Felt - u64  (starknet-types-core: `self + Felt::from(rhs)`)
impl AddSpecImpl<u64> for Felt {
    open spec fn obeys_add_spec() -> bool { true }
    open spec fn add_req(self, rhs: u64) -> bool { true }
    open spec fn add_spec(self, rhs: u64) -> Felt { felt_of(fadd(self@, rhs as nat)) }
}
impl core::ops::Add<u64> for Felt {
    type Output = Felt;
    #[verifier::external_body]
    fn add(self, rhs: u64) -> Felt { unimplemented!() }
}
impl SubSpecImpl<u64> for Felt {
    open spec fn obeys_sub_spec() -> bool { true }
    open spec fn sub_req(self, rhs: u64) -> bool { true }
    open spec fn sub_spec(self, rhs: u64) -> Felt { felt_of(fsub(self@, rhs as nat)) }
}
impl core::ops::Sub<u64> for Felt {
    type Output = Felt;
    #[verifier::external_body]
    fn sub(self, rhs: u64) -> Felt { unimplemented!() }
}

macro_rules! felt_opassign {
    ($Tr:ident, $SpecTr:ident, $m:ident, $obeys:ident, $req:ident, $spec:ident, $f:ident) => {
        verus! {
        impl $SpecTr<Felt> for Felt {
            open spec fn $obeys() -> bool { true }
            open spec fn $req(&self, rhs: Felt) -> bool { true }
            open spec fn $spec(&self, rhs: Felt) -> &Felt { &felt_of($f(self@, rhs@)) }
        }
        impl core::ops::$Tr<Felt> for Felt {
            #[verifier::external_body]
            fn $m(&mut self, rhs: Felt) { unimplemented!() }
        }
        }
    };
}
felt_opassign!(AddAssign, AddAssignSpecImpl, add_assign, obeys_add_assign_spec, add_assign_req, add_assign_spec, fadd);
felt_opassign!(SubAssign, SubAssignSpecImpl, sub_assign, obeys_sub_assign_spec, sub_assign_req, sub_assign_spec, fsub);
felt_opassign!(MulAssign, MulAssignSpecImpl, mul_assign, obeys_mul_assign_spec, mul_assign_req, mul_assign_spec, fmul);

impl PartialEqSpecImpl for Felt {
    open spec fn obeys_eq_spec() -> bool { true }
    open spec fn eq_spec(&self, other: &Felt) -> bool { self@ == other@ }
}
impl PartialEq for Felt {
    #[verifier::external_body]
    fn eq(&self, other: &Felt) -> bool { unimplemented!() }
}
impl Eq for Felt {}
impl PartialOrdSpecImpl for Felt {
    open spec fn obeys_partial_cmp_spec() -> bool { true }
    open spec fn partial_cmp_spec(&self, other: &Felt) -> Option<core::cmp::Ordering> {
        if self@ < other@ { Some(core::cmp::Ordering::Less) }
        else if self@ == other@ { Some(core::cmp::Ordering::Equal) }
        else { Some(core::cmp::Ordering::Greater) }
    }
}
impl PartialOrd for Felt {
    #[verifier::external_body]
    fn partial_cmp(&self, other: &Felt) -> Option<core::cmp::Ordering> { unimplemented!() }
}

// ------------------------------------------------------------------ From<int>
macro_rules! felt_from_uint {
    ($T:ty) => {
        verus! {
        impl FromSpecImpl<$T> for Felt {
            open spec fn obeys_from_spec() -> bool { true }
            open spec fn from_spec(x: $T) -> Felt { felt_of(x as nat) }
        }
        impl From<$T> for Felt {
            #[verifier::external_body]
            fn from(x: $T) -> Felt { unimplemented!() }
        }
        }
    };
}
felt_from_uint!(u8);
felt_from_uint!(u16);
felt_from_uint!(u32);
felt_from_uint!(u64);
felt_from_uint!(u128);
felt_from_uint!(usize);
// i32 literals (`Felt::from(0)`, `Felt::from(2)`): value for non-negative arguments, P - |x| otherwise
impl FromSpecImpl<i32> for Felt {
    open spec fn obeys_from_spec() -> bool { true }
    open spec fn from_spec(x: i32) -> Felt { if x >= 0 { felt_of(x as nat) } else { felt_of((P - (-x) as nat) as nat) } }
}
impl From<i32> for Felt {
    #[verifier::external_body]
    fn from(x: i32) -> Felt { unimplemented!() }
}

// ------------------------------------------------------------------ NonZeroFelt
#[verifier::external_body]
#[derive(Clone, Copy)]
pub struct NonZeroFelt { _x: [u64; 4] }
impl View for NonZeroFelt { type V = nat; uninterp spec fn view(&self) -> nat; }
pub broadcast axiom fn axiom_nzfelt_range(f: NonZeroFelt) ensures #[trigger] f@ < P;

pub struct FeltIsZeroError;

impl NonZeroFelt {
    /// NB: no precondition, exactly like the library: a zero value can be smuggled in.
    #[verifier::external_body]
    pub fn from_felt_unchecked(value: Felt) -> (r: NonZeroFelt) ensures r@ == value@ { unimplemented!() }
    #[verifier::external_body]
    pub exec const ONE: NonZeroFelt ensures Self::ONE@ == 1 { NonZeroFelt { _x: [0u64; 4] } }
    #[verifier::external_body]
    pub exec const TWO: NonZeroFelt ensures Self::TWO@ == 2 { NonZeroFelt { _x: [0u64; 4] } }
    #[verifier::external_body]
    pub exec const THREE: NonZeroFelt ensures Self::THREE@ == 3 { NonZeroFelt { _x: [0u64; 4] } }
}
impl TryFrom<Felt> for NonZeroFelt {
    type Error = FeltIsZeroError;
    #[verifier::external_body]
    fn try_from(value: Felt) -> (r: Result<NonZeroFelt, FeltIsZeroError>)
        ensures r.is_ok() <==> value@ != 0, r.is_ok() ==> r->Ok_0@ == value@
    { unimplemented!() }
}

// ------------------------------------------------------------------ bigint stand-ins
/// `num_bigint::BigInt` / `BigUint` values produced from a Felt: only the mathematical value is kept.
pub struct BigInt { pub v: Ghost<int> }
pub struct BigUint { pub v: Ghost<nat> }
pub struct TryFromBigIntError<T> { pub _p: core::marker::PhantomData<T> }

impl DivSpecImpl<BigUint> for BigUint {
    open spec fn obeys_div_spec() -> bool { true }
    open spec fn div_req(self, rhs: BigUint) -> bool { rhs.v@ != 0 }
    open spec fn div_spec(self, rhs: BigUint) -> BigUint { BigUint { v: Ghost(self.v@ / rhs.v@) } }
}
impl core::ops::Div<BigUint> for BigUint {
    type Output = BigUint;
    /// num-bigint: panics on a zero divisor (hence div_req)
    #[verifier::external_body]
    fn div(self, rhs: BigUint) -> BigUint { unimplemented!() }
}
impl BigUint {
    #[verifier::external_body]
    pub fn to_bytes_be(&self) -> (r: Vec<u8>) ensures be_nat(r@) == self.v@ { unimplemented!() }
}

macro_rules! try_from_big {
    ($T:ty) => {
        verus! {
        impl TryFrom<BigInt> for $T {
            type Error = TryFromBigIntError<BigInt>;
            #[verifier::external_body]
            fn try_from(b: BigInt) -> (r: Result<$T, TryFromBigIntError<BigInt>>)
                ensures r.is_ok() <==> 0 <= b.v@ <= <$T>::MAX, r.is_ok() ==> r->Ok_0 as int == b.v@
            { unimplemented!() }
        }
        impl TryFrom<BigUint> for $T {
            type Error = TryFromBigIntError<BigUint>;
            #[verifier::external_body]
            fn try_from(b: BigUint) -> (r: Result<$T, TryFromBigIntError<BigUint>>)
                ensures r.is_ok() <==> b.v@ <= <$T>::MAX, r.is_ok() ==> r->Ok_0 as nat == b.v@
            { unimplemented!() }
        }
        }
    };
}
try_from_big!(u8);
try_from_big!(u32);
try_from_big!(u64);
try_from_big!(u128);
try_from_big!(usize);

// ------------------------------------------------------------------ bytes
/// big-endian value of a byte sequence
pub open spec fn be_nat(s: Seq<u8>) -> nat decreases s.len() {
    if s.len() == 0 { 0 } else { be_nat(s.drop_last()) * 256 + s.last() as nat }
}
/// 32-byte big-endian encoding of n (n < 2^256)
pub uninterp spec fn be32(n: nat) -> Seq<u8>;
pub broadcast axiom fn axiom_be32(n: nat)
    requires n < P
    ensures #[trigger] be32(n).len() == 32, be_nat(be32(n)) == n;

// ------------------------------------------------------------------ methods
impl Felt {
    #[verifier::external_body]
    pub exec const ZERO: Felt ensures Self::ZERO@ == 0 { Felt { _x: [0u64; 4] } }
    #[verifier::external_body]
    pub exec const ONE: Felt ensures Self::ONE@ == 1 { Felt { _x: [0u64; 4] } }
    #[verifier::external_body]
    pub exec const TWO: Felt ensures Self::TWO@ == 2 { Felt { _x: [0u64; 4] } }
    #[verifier::external_body]
    pub exec const THREE: Felt ensures Self::THREE@ == 3 { Felt { _x: [0u64; 4] } }

    /// placeholder value for generated `exec const` items (their bodies are never verified nor run)
    #[verifier::external_body]
    pub const fn stub() -> Felt { Felt { _x: [0u64; 4] } }

    #[verifier::external_body]
    pub fn to_bigint(&self) -> (r: BigInt) ensures r.v@ == self@ as int { unimplemented!() }
    #[verifier::external_body]
    pub fn to_biguint(&self) -> (r: BigUint) ensures r.v@ == self@ { unimplemented!() }

    /// lambdaworks `pow` with a u128-convertible exponent
    #[verifier::external_body]
    pub fn pow<E: FeltExp>(&self, e: E) -> (r: Felt) ensures r@ == pow_mod(self@, e.exp_nat()) { unimplemented!() }
    #[verifier::external_body]
    pub fn pow_felt(&self, e: &Felt) -> (r: Felt) ensures r@ == pow_mod(self@, e@) { unimplemented!() }

    /// lambdaworks `/` unwraps `inv()`: a zero divisor PANICS, hence the precondition.
    #[verifier::external_body]
    pub fn field_div(&self, rhs: &NonZeroFelt) -> (r: Felt)
//@ifnotfeature assume_fs_nonzero
        requires rhs@ != 0
        ensures r@ == fdiv(self@, rhs@)
    { unimplemented!() }
    /// integer division of canonical representatives (panics on a zero divisor)
    #[verifier::external_body]
    pub fn floor_div(&self, rhs: &NonZeroFelt) -> (r: Felt)
        requires rhs@ != 0
        ensures r@ == self@ / rhs@
    { unimplemented!() }
    #[verifier::external_body]
    pub fn div_rem(&self, rhs: &NonZeroFelt) -> (r: (Felt, Felt))
        requires rhs@ != 0
        ensures r.0@ == self@ / rhs@, r.1@ == self@ % rhs@
    { unimplemented!() }

    #[verifier::external_body]
    pub fn to_bytes_be(&self) -> (r: [u8; 32]) ensures r@ == be32(self@) { unimplemented!() }
    #[verifier::external_body]
    pub fn from_bytes_be_slice(bytes: &[u8]) -> (r: Felt) ensures r@ == be_nat(bytes@) % P { unimplemented!() }
}

/// exponent argument of `Felt::pow` (`impl Into<u128>` in the library)
pub trait FeltExp: Sized { spec fn exp_nat(self) -> nat; }
impl FeltExp for u8 { open spec fn exp_nat(self) -> nat { self as nat } }
impl FeltExp for u16 { open spec fn exp_nat(self) -> nat { self as nat } }
impl FeltExp for u32 { open spec fn exp_nat(self) -> nat { self as nat } }
impl FeltExp for u64 { open spec fn exp_nat(self) -> nat { self as nat } }
impl FeltExp for u128 { open spec fn exp_nat(self) -> nat { self as nat } }

} // verus!
// Debug impls (needed by `unwrap`); outside verus!, never executed
impl core::fmt::Debug for FeltIsZeroError { fn fmt(&self, _f: &mut core::fmt::Formatter<'_>) -> core::fmt::Result { Ok(()) } }
impl<T> core::fmt::Debug for TryFromBigIntError<T> { fn fmt(&self, _f: &mut core::fmt::Formatter<'_>) -> core::fmt::Result { Ok(()) } }
impl core::fmt::Debug for Felt { fn fmt(&self, _f: &mut core::fmt::Formatter<'_>) -> core::fmt::Result { Ok(()) } }
} // mod prelude
