// ===================================================================================
// TRUSTED PRELUDE for the C19 unit (A-cli): assumed contracts of num-bigint / std items used by
// cli/src/transform.rs.  Nothing in this file is verified.
// ===================================================================================
pub mod cli_prelude {
use vstd::prelude::*;
use vstd::std_specs::convert::*;
use crate::prelude::*;
verus! {

/// starknet-types-core 0.1.5 `impl From<BigUint> for Felt`: the value is reduced modulo P (no error for values >= P)
impl FromSpecImpl<BigUint> for Felt {
    open spec fn obeys_from_spec() -> bool { true }
    open spec fn from_spec(x: BigUint) -> Felt { felt_of(x.v@ % P) }
}
impl From<BigUint> for Felt {
    #[verifier::external_body]
    fn from(x: BigUint) -> Felt { unimplemented!() }
}

/// num-bigint `BigUint::to_u64_digits`: base-2^64 digits, least significant first, EMPTY for zero
pub open spec fn digits64(n: nat) -> Seq<u64> decreases n {
    if n == 0 { Seq::<u64>::empty() } else { seq![(n % 0x1_0000_0000_0000_0000) as u64] + digits64(n / 0x1_0000_0000_0000_0000) }
}
pub open spec fn digits32(n: nat) -> Seq<u32> decreases n {
    if n == 0 { Seq::<u32>::empty() } else { seq![(n % 0x1_0000_0000) as u32] + digits32(n / 0x1_0000_0000) }
}
impl BigUint {
    #[verifier::external_body]
    pub fn to_u64_digits(&self) -> (r: Vec<u64>) ensures r@ == digits64(self.v@) { unimplemented!() }
    #[verifier::external_body]
    pub fn to_u32_digits(&self) -> (r: Vec<u32>) ensures r@ == digits32(self.v@) { unimplemented!() }
}

/// stand-in for `BTreeMap<String, u32>` (the parser's dynamic_params): only the values in key order are modelled
#[verifier::external_body]
pub struct DynParamMap { _b: u8 }
impl DynParamMap {
    pub uninterp spec fn values_seq(&self) -> Seq<u32>;
    #[verifier::external_body]
    pub fn is_empty(&self) -> (b: bool) ensures b == (self.values_seq().len() == 0) { unimplemented!() }
}
/// hoisted `m.values().map(|&f| f as usize).collect::<Vec<usize>>()`
#[verifier::external_body]
pub fn map_values_usize(m: &DynParamMap) -> (r: Vec<usize>)
    ensures r@.len() == m.values_seq().len(), forall|i: int| 0 <= i < r@.len() ==> (#[trigger] r@[i]) as nat == m.values_seq()[i] as nat,
{ unimplemented!() }

} // verus!
} // mod cli_prelude
