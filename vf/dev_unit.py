#!/usr/bin/env python3
"""dev helper: verify ONE unit and print every failure / undecided reason (no evidence written)."""
import sys, os, json
sys.path.insert(0, os.path.dirname(os.path.abspath(__file__)))
import run as R
unit = sys.argv[1]
r = R.process_unit(unit, 0, want_canary='--canary' in sys.argv)
print('summary', r['res']['summary'].get('verification-results'), 'wall', round(r['res']['wall'], 1))
for f in r['failures']:
    print('FAIL', f['function'], f['props'], f['label'], f['kind'], 'repo', f.get('repo_file'), f.get('repo_line'), 'out', f['out_line'], '|', (f['expr'] or '')[:160], '|', f['message'][:100])
for u in r['undecided']:
    print('UNDECIDED', u[:1500])
if r.get('canary'):
    print('canary', r['canary']['total'], r['canary']['failed_as_expected'], r['canary']['vacuous'])
