// ===================================================================================
// VERIFIED number-theory lemmas for the Stark-252 field (nothing assumed): pow_mod laws, the
// 2-adic structure of P-1, generators of the power-of-two subgroups (property C12).
// ===================================================================================
pub mod numth {
use vstd::prelude::*;
use vstd::arithmetic::power::*;
use vstd::arithmetic::div_mod::*;
use vstd::arithmetic::mul::*;
use crate::prelude::*;
use crate::lemmas::*;

verus! {

/// pow_mod is ordinary exponentiation reduced mod P
pub proof fn lemma_pow_mod_is_pow(b: nat, e: nat)
    ensures pow_mod(b, e) == pow(b as int, e) % (P as int), pow_mod(b, e) < P
    decreases e
{
    if e == 0 {
        lemma_pow0(b as int);
    } else {
        lemma_pow_mod_is_pow(b, (e - 1) as nat);
        reveal(pow);
        assert(pow(b as int, e) == b * pow(b as int, (e - 1) as nat));
        lemma_mul_mod_noop_general(b as int, pow(b as int, (e - 1) as nat), P as int);
    }
}

pub proof fn lemma_pow_mod_add(b: nat, e1: nat, e2: nat)
    ensures pow_mod(b, e1 + e2) == fmul(pow_mod(b, e1), pow_mod(b, e2))
{
    lemma_pow_mod_is_pow(b, e1);
    lemma_pow_mod_is_pow(b, e2);
    lemma_pow_mod_is_pow(b, e1 + e2);
    lemma_pow_adds(b as int, e1, e2);
    lemma_mul_mod_noop_general(pow(b as int, e1), pow(b as int, e2), P as int);
}

pub proof fn lemma_pow_mod_mul(b: nat, e1: nat, e2: nat)
    ensures pow_mod(pow_mod(b, e1), e2) == pow_mod(b, e1 * e2)
{
    lemma_pow_mod_is_pow(b, e1);
    lemma_pow_mod_is_pow(pow_mod(b, e1), e2);
    lemma_pow_mod_is_pow(b, e1 * e2);
    lemma_pow_mod_noop(pow(b as int, e1), e2, P as int);
    lemma_pow_multiplies(b as int, e1, e2);
}

/// square-and-multiply evaluation (for `by(compute_only)` on 252-bit exponents)
pub open spec fn pow_sm(b: nat, e: nat) -> nat decreases e {
    if e == 0 { 1 } else {
        let h = pow_sm(b, e / 2);
        if e % 2 == 0 { (h * h) % P } else { (b * ((h * h) % P)) % P }
    }
}
pub proof fn lemma_pow_sm(b: nat, e: nat)
    ensures pow_sm(b, e) == pow_mod(b, e)
    decreases e
{
    if e == 0 {
        assert(1nat % P == 1) by(compute_only);
    } else {
        let h = e / 2;
        lemma_pow_sm(b, h);
        lemma_pow_mod_add(b, h, h);
        if e % 2 == 0 {
            assert(h + h == e);
        } else {
            assert(h + h + 1 == e);
            assert(pow_mod(b, e) == (b * pow_mod(b, (e - 1) as nat)) % P);
        }
    }
}

pub spec const M_ODD: nat = 0x800000000000011nat;   // (P-1) / 2^192 = 2^59 + 17
pub proof fn lemma_p_minus_one()
    ensures (P - 1) as nat == pow2(192) * M_ODD
{
    assert((P - 1) as nat == pow2(192) * M_ODD) by(compute_only);
}

/// (P-1)/2^k for k <= 192 is exact: 2^(192-k) * M_ODD
pub proof fn lemma_div_pm1(k: nat)
    requires k <= 192
    ensures
        ((P - 1) as nat) / pow2(k) == pow2((192 - k) as nat) * M_ODD,
        (((P - 1) as nat) / pow2(k)) * pow2(k) == (P - 1) as nat,
        pow2(k) > 0,
{
    lemma_p_minus_one();
    lemma_pow2_add((192 - k) as nat, k);
    lemma_pow2_pos(k);
    let q = pow2((192 - k) as nat) * M_ODD;
    assert(q * pow2(k) == pow2(192) * M_ODD) by(nonlinear_arith)
        requires pow2(192) == pow2((192 - k) as nat) * pow2(k), q == pow2((192 - k) as nat) * M_ODD;
    lemma_fundamental_div_mod_converse((P - 1) as int, pow2(k) as int, q as int, 0);
}

/// field division of P-1 by 2^k is the exact integer quotient (this is what StarkDomains::new computes)
pub proof fn lemma_fdiv_pm1(k: nat)
    requires k <= 192
    ensures fdiv((P - 1) as nat, pow2(k)) == ((P - 1) as nat) / pow2(k), 0 < pow2(k) < P
{
    lemma_div_pm1(k);
    lemma_pow2_251_lt_p();
    lemma_pow2_mono(k, 192);
    let b = pow2(k);
    let q = ((P - 1) as nat) / b;
    broadcast use crate::prelude::axiom_finv;
    assert(fmul(b, finv(b)) == 1);
    // (q*b) * inv(b) = q * (b*inv(b))
    assert((q * b) * finv(b) == q * (b * finv(b))) by(nonlinear_arith);
    lemma_mul_mod_noop_general(q as int, (b * finv(b)) as int, P as int);
    assert(q < P) by { lemma_pow2_pos(k); assert(q * b >= q) by(nonlinear_arith) requires b >= 1; }
    lemma_small_mod(q, P);
    let k = (b * finv(b)) % P;
    assert(k == 1);
    assert(q * k == q) by(nonlinear_arith) requires k == 1;
    assert((q * ((b * finv(b)) % P)) % P == q % P);
}

/// generator of the subgroup of order 2^k used by the code: 3^((P-1)/2^k)
pub open spec fn gen(k: nat) -> nat { pow_mod(3, ((P - 1) as nat) / pow2(k)) }

/// gen(k)^(2^j) == gen(k-j)
pub proof fn lemma_gen_pow(k: nat, j: nat)
    requires j <= k <= 192
    ensures pow_mod(gen(k), pow2(j)) == gen((k - j) as nat)
{
    lemma_div_pm1(k);
    lemma_div_pm1((k - j) as nat);
    lemma_pow_mod_mul(3, ((P - 1) as nat) / pow2(k), pow2(j));
    lemma_pow2_add((192 - k) as nat, j);
    assert((pow2((192 - k) as nat) * M_ODD) * pow2(j) == pow2((192 - k + j) as nat) * M_ODD) by(nonlinear_arith)
        requires pow2((192 - k + j) as nat) == pow2((192 - k) as nat) * pow2(j);
    assert(192 - (k - j) == 192 - k + j);
}

pub proof fn lemma_gen_0_and_1()
    ensures gen(0) == 1, gen(1) == (P - 1) as nat
{
    lemma_pow_sm(3, (P - 1) as nat);
    lemma_pow_sm(3, ((P - 1) as nat) / 2);
    assert(pow2(0) == 1) by(compute_only);
    assert(pow2(1) == 2) by(compute_only);
    assert(pow_sm(3, (P - 1) as nat) == 1) by(compute_only);
    assert(pow_sm(3, ((P - 1) as nat) / 2) == (P - 1) as nat) by(compute_only);
    assert(((P - 1) as nat) / 1 == (P - 1) as nat);
}

/// ORDER (property C12): gen(k) has multiplicative order exactly 2^k, i.e.
/// gen(k)^(2^k) == 1 and (k >= 1 ==> gen(k)^(2^(k-1)) == -1 != 1).
pub proof fn lemma_gen_order(k: nat)
    requires k <= 192
    ensures
        pow_mod(gen(k), pow2(k)) == 1,                                     // [C12:generator-to-the-2^k-is-one]
        k >= 1 ==> pow_mod(gen(k), pow2((k - 1) as nat)) == (P - 1) as nat, // [C12:generator-to-the-2^(k-1)-is-minus-one]
        k >= 1 ==> pow_mod(gen(k), pow2((k - 1) as nat)) != 1,
{
    lemma_gen_0_and_1();
    lemma_gen_pow(k, k);
    if k >= 1 {
        lemma_gen_pow(k, (k - 1) as nat);
        assert(k - (k - 1) == 1);
    }
}

/// every smaller power of two fails to give 1: the order is not a proper divisor of 2^k
pub proof fn lemma_gen_order_minimal(k: nat, j: nat)
    requires j < k <= 192
    ensures pow_mod(gen(k), pow2(j)) != 1   // [C12:no-smaller-power-of-two-order]
{
    // gen(k)^(2^j) = gen(k-j) with k-j >= 1; if it were 1 then gen(k-j)^(2^(k-j-1)) would be 1, but it is -1
    lemma_gen_pow(k, j);
    let m = (k - j) as nat;
    lemma_gen_order(m);
    if gen(m) == 1 {
        lemma_one_pow(pow2((m - 1) as nat));
    }
}

pub proof fn lemma_one_pow(e: nat)
    ensures pow_mod(1, e) == 1
    decreases e
{
    assert(1nat % P == 1) by(compute_only);
    if e > 0 { lemma_one_pow((e - 1) as nat); }
}

// ---------------------------------------------------------------- exact multiplicative order (C12)
/// d is the multiplicative order of h: the least positive exponent with h^d = 1
pub open spec fn is_order(h: nat, d: nat) -> bool {
    d > 0 && pow_mod(h, d) == 1 && forall|e: nat| 0 < e < d ==> #[trigger] pow_mod(h, e) != 1
}
/// h^(2^k) = 1 and h^(2^j) != 1 for every j < k  ==>  no exponent 0 < e < 2^k gives 1
pub proof fn lemma_no_smaller_exponent(h: nat, k: nat, e: nat)
    requires h < P, pow_mod(h, pow2(k)) == 1, forall|j: nat| j < k ==> #[trigger] pow_mod(h, pow2(j)) != 1, 0 < e < pow2(k)
    ensures pow_mod(h, e) != 1
    decreases k
{
    if k == 0 { } else if pow_mod(h, e) == 1 {
        let k1 = (k - 1) as nat;
        lemma_pow2_pos(k1);
        if e % 2 == 0 {
            // (h^2)^(e/2) = 1 with 0 < e/2 < 2^(k-1), and h^2 satisfies the hypotheses for k-1
            let h2 = pow_mod(h, 2);
            let e2: nat = e / 2;
            assert(e == 2 * e2);
            lemma_pow_mod_mul(h, 2, e2);
            assert(pow_mod(h2, e2) == 1);
            lemma_pow_mod_mul(h, 2, pow2(k1));
            assert(2 * pow2(k1) == pow2(k));
            assert(pow_mod(h2, pow2(k1)) == 1);
            assert forall|j: nat| j < k1 implies #[trigger] pow_mod(h2, pow2(j)) != 1 by {
                lemma_pow_mod_mul(h, 2, pow2(j));
                assert(2 * pow2(j) == pow2(j + 1));
                assert(pow_mod(h, pow2(j + 1)) != 1);
            }
            assert(h2 < P) by { lemma_mod_bound((h * pow_mod(h, 1)) as int, P as int); }
            lemma_no_smaller_exponent(h2, k1, e2);
        } else {
            // t = h^(2^(k-1)) != 1, t^2 = 1; (h^e)^(2^(k-1)) = t^e = t * (t^2)^((e-1)/2) = t  -- contradiction
            let t = pow_mod(h, pow2(k1));
            assert(t != 1);
            lemma_pow_mod_mul(h, pow2(k1), 2);
            assert(pow2(k1) * 2 == pow2(k));
            assert(pow_mod(t, 2) == 1);
            lemma_pow_mod_mul(h, e, pow2(k1));
            lemma_one_pow(pow2(k1));
            assert(pow_mod(h, e * pow2(k1)) == 1);
            assert(e * pow2(k1) == pow2(k1) * e) by(nonlinear_arith);
            lemma_pow_mod_mul(h, pow2(k1), e);
            assert(pow_mod(t, e) == 1);
            let half: nat = ((e - 1) / 2) as nat;
            assert(e == 2 * half + 1);
            lemma_pow_mod_add(t, 2 * half, 1);
            lemma_pow_mod_mul(t, 2, half);
            lemma_one_pow(half);
            assert(pow_mod(t, 2 * half) == 1);
            assert(t < P) by { if pow2(k1) == 0 {} else { lemma_mod_bound((h * pow_mod(h, (pow2(k1) - 1) as nat)) as int, P as int); } }
            assert(pow_mod(t, 1) == t) by {
                assert(pow_mod(t, 0) == 1nat % P);
                assert(1nat % P == 1) by(compute_only);
                assert(t * 1 == t);
                lemma_small_mod(t, P);
            }
            assert(fmul(1, t) == t) by { assert(1 * t == t); lemma_small_mod(t, P); }
            assert(false);
        }
    }
}
/// the statement of C12: the order is EXACTLY 2^k
pub proof fn lemma_order_exactly_pow2(h: nat, k: nat)
    requires h < P, pow_mod(h, pow2(k)) == 1, forall|j: nat| j < k ==> #[trigger] pow_mod(h, pow2(j)) != 1
    ensures is_order(h, pow2(k)) // [C12:lemma-order-is-exactly-2^k]
{
    lemma_pow2_pos(k);
    assert forall|e: nat| 0 < e < pow2(k) implies #[trigger] pow_mod(h, e) != 1 by { lemma_no_smaller_exponent(h, k, e); }
}
} // verus!
} // mod numth
