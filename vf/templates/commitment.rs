pub mod swiftness_commitment {
pub mod vector {
//@include commitment/vector_config.rs
//@include commitment/vector_types.rs
//@include commitment/vector_commit.rs
//@include commitment/vector_decommit.rs
//@include commitment/vector_merkle_lemmas.rs
} // mod vector
pub mod table {
//@include commitment/table_config.rs
//@include commitment/table_types.rs
//@include commitment/table_commit.rs
//@include commitment/table_decommit.rs
} // mod table
} // mod swiftness_commitment
