pub mod swiftness_commitment {
pub mod vector {
//@include commitment/vector_config.rs
} // mod vector
pub mod table {
//@include commitment/table_config.rs
} // mod table
} // mod swiftness_commitment
