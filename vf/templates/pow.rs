pub mod swiftness_pow {
//@include pow_bits.rs
pub mod config {
use vstd::prelude::*;
use crate::prelude::*;
verus! {
//@verbatim crates/pow/src/config.rs const MAX_PROOF_OF_WORK_BITS,MIN_PROOF_OF_WORK_BITS
//@verbatim crates/pow/src/config.rs struct Config
//@verbatim crates/pow/src/config.rs enum Error
impl Config {
//@repo crates/pow/src/config.rs fn Config::validate props=C01,C02,C09,C11
    pub fn validate(&self) -> (r: Result<(), Error>)
        ensures
            r.is_ok() <==> 20 <= self.n_bits <= 50, // [C01,C02,C09,C11,C18:pow-bits-in-20..=50]
    {
        if self.n_bits < MIN_PROOF_OF_WORK_BITS || self.n_bits > MAX_PROOF_OF_WORK_BITS {
            Err(Error::OutOfBounds { min: MIN_PROOF_OF_WORK_BITS, max: MAX_PROOF_OF_WORK_BITS })
        } else {
            Ok(())
        }
    }
//@end
}
} // verus!
} // mod config

pub mod pow {
use vstd::prelude::*;
use crate::prelude::*;
use crate::hashes::*;
use crate::stdx::*;
use crate::lemmas::*;
use crate::swiftness_transcript::transcript::*;
use super::config::Config;
verus! {
broadcast use crate::prelude::group_felt;
//@verbatim crates/pow/src/pow.rs const MAGIC
//@verbatim crates/pow/src/pow.rs struct UnsentCommitment
//@verbatim crates/pow/src/pow.rs enum Error

/// the build's 256-bit hash (feature `keccak` or `blake2s` of swiftness_pow)
//@iffeature keccak
pub open spec fn pow_h(b: Seq<u8>) -> Seq<u8> { keccak256(b) }
//@iffeature blake2s
pub open spec fn pow_h(b: Seq<u8>) -> Seq<u8> { blake2s256(b) }

/// H(H(0x0123456789abcded || digest || n) || nonce), all integers big-endian   (property C09, verbatim)
pub open spec fn pow_hash(digest: Seq<u8>, n_bits: u8, nonce: u64) -> Seq<u8> {
    pow_h(pow_h(be8(0x0123456789abcded) + digest + seq![n_bits]) + be8(nonce))
}
/// accepted <=> the first 16 bytes, read as a big-endian integer, are below 2^(128-n)
pub open spec fn pow_ok(digest: Seq<u8>, n_bits: u8, nonce: u64) -> bool {
    be_nat(pow_hash(digest, n_bits, nonce).subrange(0, 16)) < pow2((128 - n_bits) as nat)
}

//@repo crates/pow/src/pow.rs fn verify_pow props=C01,C02,C09
pub fn verify_pow(digest: [u8; 32], n_bits: u8, nonce: u64) -> (r: Result<(), Error>)
    requires
        n_bits <= 128, // [C18:pow-n_bits<=128-else-underflow]
    ensures
        r.is_ok() <==> pow_ok(digest@, n_bits, nonce), // [C01,C02,C09:accepted-iff-hash-below-threshold]
        r.is_ok() <==> super::pow_bits::starts_with_zero_bits(pow_hash(digest@, n_bits, nonce), n_bits as nat), // [C09:accepted-iff-hash-starts-with-n_bits-zero-bits]
{
    broadcast use crate::hashes::group_digest_len;
    proof { super::pow_bits::lemma_threshold_is_zero_bits(pow_hash(digest@, n_bits, nonce), n_bits as nat); }
    let mut hasher = Keccak256::new();
    let mut init_data = Vec::with_capacity(41);
    init_data.extend_from_slice(&MAGIC.to_be_bytes_x());
    init_data.extend_from_slice(&digest);
    init_data.push(n_bits);
    hasher.update(&init_data);
    let init_hash = hasher.finalize().to_vec();
    let mut hasher = Keccak256::new();
    let mut hash_data = Vec::with_capacity(40);
    hash_data.extend_from_slice(&init_hash);
    hash_data.extend_from_slice(&nonce.to_be_bytes_x());
    hasher.update(&hash_data);
    let final_hash = hasher.finalize();
    proof {
        assert(init_data@ =~= be8(0x0123456789abcded) + digest@ + seq![n_bits]);
        assert(hash_data@ =~= init_hash@ + be8(nonce));
        let s16 = final_hash@.subrange(0, 16);
        lemma_be_nat_bound(s16);
        lemma_pow2_251_lt_p();
        lemma_pow_mod_two((128 - n_bits) as nat);
        vstd::arithmetic::div_mod::lemma_small_mod(be_nat(s16), P);
    }
    assure!(
        Felt::from_bytes_be_slice(&final_hash.as_slice()[0..16]) < Felt::TWO.pow(128 - n_bits),
        Error::ProofOfWorkFail
    )
}
//@end

impl UnsentCommitment {
//@repo crates/pow/src/pow.rs fn UnsentCommitment::commit props=C01,C02,C08,C09
    pub fn commit(&self, transcript: &mut Transcript, config: &Config) -> (r: Result<(), Error>)
        requires
            config.n_bits <= 128, // [C18:commit-needs-validated-n_bits]
        ensures
            r.is_ok() <==> pow_ok(be32(old(transcript).digest@), config.n_bits, self.nonce), // [C01,C02,C09:commit-checks-pow-on-pre-state-digest]
            r.is_ok() ==> final(transcript).digest@ == ts_absorb1(old(transcript).digest@, self.nonce as nat) && final(transcript).counter@ == 0, // [C01,C02,C08,C09:nonce-absorbed-after-check]
            r.is_err() ==> *final(transcript) == *old(transcript), // [C09:err-leaves-transcript]
    {
        verify_pow(transcript.digest().to_bytes_be(), config.n_bits, self.nonce)?;
        transcript.read_uint64_from_prover(self.nonce);
        Ok(())
    }
//@end
}
} // verus!
} // mod pow
} // mod swiftness_pow
