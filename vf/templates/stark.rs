pub mod swiftness_stark {
//@include stark/config.rs
//@include stark/queries.rs
} // mod swiftness_stark
