pub mod swiftness_stark {
//@include stark/config.rs
//@include stark/queries.rs
//@include stark/types.rs
//@include stark/oods.rs
//@include stark/commit.rs
//@include stark/fs_lemmas.rs
//@include stark/verify.rs
//@include stark/stark.rs
} // mod swiftness_stark
