pub mod swiftness_stark {
//@include stark/config.rs
} // mod swiftness_stark
