pub mod swiftness_stark {
//@include stark/config.rs
//@include stark/queries.rs
//@include stark/types.rs
//@include stark/oods.rs
} // mod swiftness_stark
