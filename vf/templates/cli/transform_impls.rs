//@repo cli/src/transform.rs impl TransformTo<StarkProofVerifier>@StarkProof props=C19 implicit=C19
impl TransformTo<StarkProofVerifier> for stark_proof::StarkProof {
    /*+*/open spec fn same_as(self, r: StarkProofVerifier) -> bool { (self.config.same_as(r.config)) && (self.public_input.same_as(r.public_input)) && (self.unsent_commitment.same_as(r.unsent_commitment)) && (self.witness.same_as(r.witness)) }/*-*/
    fn transform_to(self) -> (r: StarkProofVerifier)
        ensures
            self.config.same_as(r.config), // [C19:config-carried-exactly]
            self.public_input.same_as(r.public_input), // [C19:public_input-carried-exactly]
            self.unsent_commitment.same_as(r.unsent_commitment), // [C19:unsent_commitment-carried-exactly]
            self.witness.same_as(r.witness), // [C19:witness-carried-exactly]
    {
        StarkProofVerifier {
            config: self.config.transform_to(),
            public_input: self.public_input.transform_to(),
            unsent_commitment: self.unsent_commitment.transform_to(),
            witness: self.witness.transform_to(),
        }
    }
}
//@end
//@repo cli/src/transform.rs impl TransformTo<StarkConfigVerifier>@StarkConfig props=C19 implicit=C19
impl TransformTo<StarkConfigVerifier> for stark_proof::StarkConfig {
    /*+*/open spec fn same_as(self, r: StarkConfigVerifier) -> bool { (self.traces.same_as(r.traces)) && (self.composition.same_as(r.composition)) && (self.fri.same_as(r.fri)) && (self.proof_of_work.same_as(r.proof_of_work)) && (r.log_trace_domain_size@ == self.log_trace_domain_size as nat) && (r.n_queries@ == self.n_queries as nat) && (r.log_n_cosets@ == self.log_n_cosets as nat) && (r.n_verifier_friendly_commitment_layers@ == self.n_verifier_friendly_commitment_layers as nat) }/*-*/
    fn transform_to(self) -> (r: StarkConfigVerifier)
        ensures
            self.traces.same_as(r.traces), // [C19:traces-carried-exactly]
            self.composition.same_as(r.composition), // [C19:composition-carried-exactly]
            self.fri.same_as(r.fri), // [C19:fri-carried-exactly]
            self.proof_of_work.same_as(r.proof_of_work), // [C19:proof_of_work-carried-exactly]
            r.log_trace_domain_size@ == self.log_trace_domain_size as nat, // [C19:log_trace_domain_size-carried-exactly]
            r.n_queries@ == self.n_queries as nat, // [C19:n_queries-carried-exactly]
            r.log_n_cosets@ == self.log_n_cosets as nat, // [C19:log_n_cosets-carried-exactly]
            r.n_verifier_friendly_commitment_layers@ == self.n_verifier_friendly_commitment_layers as nat, // [C19:n_verifier_friendly_commitment_layers-carried-exactly]
    {
        StarkConfigVerifier {
            traces: self.traces.transform_to(),
            composition: self.composition.transform_to(),
            fri: self.fri.transform_to(),
            proof_of_work: self.proof_of_work.transform_to(),
            log_trace_domain_size: self.log_trace_domain_size.into(),
            n_queries: self.n_queries.into(),
            log_n_cosets: self.log_n_cosets.into(),
            n_verifier_friendly_commitment_layers: self
                .n_verifier_friendly_commitment_layers
                .into(),
        }
    }
}
//@end
//@repo cli/src/transform.rs impl TransformTo<PowConfigVerifier>@ProofOfWorkConfig props=C19 implicit=C19
impl TransformTo<PowConfigVerifier> for stark_proof::ProofOfWorkConfig {
    /*+*/open spec fn same_as(self, r: PowConfigVerifier) -> bool { (self.n_bits < 256 ==> r.n_bits as nat == self.n_bits as nat) }/*-*/
    fn transform_to(self) -> (r: PowConfigVerifier)
        ensures
            self.n_bits < 256 ==> r.n_bits as nat == self.n_bits as nat, // [C19:n_bits-carried-exactly]
    {
        proof { assert(self.n_bits < 256); } // [C19:a-difficulty-above-255-is-an-error-not-truncated]
        PowConfigVerifier { n_bits: self.n_bits as u8 }
    }
}
//@end
//@repo cli/src/transform.rs impl TransformTo<FriConfigVerifier>@FriConfig props=C19 implicit=C19 rules=H_vmap:self.inner_layers,H_vmap:self.fri_step_sizes
impl TransformTo<FriConfigVerifier> for stark_proof::FriConfig {
    /*+*/open spec fn same_as(self, r: FriConfigVerifier) -> bool { (r.log_input_size@ == self.log_input_size as nat) && (r.n_layers@ == self.n_layers as nat) && (vsame(self.inner_layers@, r.inner_layers@)) && (u32_same(self.fri_step_sizes@, r.fri_step_sizes@)) && (r.log_last_layer_degree_bound@ == self.log_last_layer_degree_bound as nat) }/*-*/
    fn transform_to(self) -> (r: FriConfigVerifier)
        ensures
            r.log_input_size@ == self.log_input_size as nat, // [C19:log_input_size-carried-exactly]
            r.n_layers@ == self.n_layers as nat, // [C19:n_layers-carried-exactly]
            vsame(self.inner_layers@, r.inner_layers@), // [C19:inner_layers-carried-exactly]
            u32_same(self.fri_step_sizes@, r.fri_step_sizes@), // [C19:fri_step_sizes-carried-exactly]
            r.log_last_layer_degree_bound@ == self.log_last_layer_degree_bound as nat, // [C19:log_last_layer_degree_bound-carried-exactly]
    {
        FriConfigVerifier {
            log_input_size: self.log_input_size.into(),
            n_layers: self.n_layers.into(),
            inner_layers: crate::hoist::vec_map_g(self.inner_layers, |x/*+*/: stark_proof::TableCommitmentConfig/*-*/| /*+*/-> (o: TableConfigVerifier) ensures x.same_as(o) {/*-*/ x.transform_to() /*+*/}/*-*/),
            fri_step_sizes: crate::hoist::vec_map_g(self.fri_step_sizes, |x/*+*/: u32/*-*/| /*+*/-> (o: Felt) ensures o@ == x as nat {/*-*/ x.into() /*+*/}/*-*/),
            log_last_layer_degree_bound: self.log_last_layer_degree_bound.into(),
        }
    }
}
//@end
//@repo cli/src/transform.rs impl TransformTo<TraceConfigVerifier>@TracesConfig props=C19 implicit=C19
impl TransformTo<TraceConfigVerifier> for stark_proof::TracesConfig {
    /*+*/open spec fn same_as(self, r: TraceConfigVerifier) -> bool { (self.original.same_as(r.original)) && (self.interaction.same_as(r.interaction)) }/*-*/
    fn transform_to(self) -> (r: TraceConfigVerifier)
        ensures
            self.original.same_as(r.original), // [C19:original-carried-exactly]
            self.interaction.same_as(r.interaction), // [C19:interaction-carried-exactly]
    {
        TraceConfigVerifier {
            original: self.original.transform_to(),
            interaction: self.interaction.transform_to(),
        }
    }
}
//@end
//@repo cli/src/transform.rs impl TransformTo<TableConfigVerifier>@TableCommitmentConfig props=C19 implicit=C19
impl TransformTo<TableConfigVerifier> for stark_proof::TableCommitmentConfig {
    /*+*/open spec fn same_as(self, r: TableConfigVerifier) -> bool { (r.n_columns@ == self.n_columns as nat) && (self.vector.same_as(r.vector)) }/*-*/
    fn transform_to(self) -> (r: TableConfigVerifier)
        ensures
            r.n_columns@ == self.n_columns as nat, // [C19:n_columns-carried-exactly]
            self.vector.same_as(r.vector), // [C19:vector-carried-exactly]
    {
        TableConfigVerifier { n_columns: self.n_columns.into(), vector: self.vector.transform_to() }
    }
}
//@end
//@repo cli/src/transform.rs impl TransformTo<VectorConfigVerifier>@VectorCommitmentConfig props=C19 implicit=C19
impl TransformTo<VectorConfigVerifier> for stark_proof::VectorCommitmentConfig {
    /*+*/open spec fn same_as(self, r: VectorConfigVerifier) -> bool { (r.height@ == self.height as nat) && (r.n_verifier_friendly_commitment_layers@ == self.n_verifier_friendly_commitment_layers as nat) }/*-*/
    fn transform_to(self) -> (r: VectorConfigVerifier)
        ensures
            r.height@ == self.height as nat, // [C19:height-carried-exactly]
            r.n_verifier_friendly_commitment_layers@ == self.n_verifier_friendly_commitment_layers as nat, // [C19:n_verifier_friendly_commitment_layers-carried-exactly]
    {
        VectorConfigVerifier {
            height: self.height.into(),
            n_verifier_friendly_commitment_layers: self
                .n_verifier_friendly_commitment_layers
                .into(),
        }
    }
}
//@end
//@repo cli/src/transform.rs impl TransformTo<PublicInputVerifier>@PublicInput props=C19 implicit=C19 rules=H_vmap:self.segments,H_vmap:self.main_page,H_dyn_values,H_dyn_from
impl TransformTo<PublicInputVerifier> for stark_proof::PublicInput {
    /*+*/open spec fn same_as(self, r: PublicInputVerifier) -> bool { (r.log_n_steps@ == self.log_n_steps as nat) && (r.range_check_min@ == self.range_check_min as nat) && (r.range_check_max@ == self.range_check_max as nat) && (self.layout.v@ < P ==> r.layout@ == self.layout.v@) && (dyn_same(self.dynamic_params, r.dynamic_params)) && (vsame(self.segments@, r.segments@)) && (r.padding_addr@ == self.padding_addr as nat) && (self.padding_value.v@ < P ==> r.padding_value@ == self.padding_value.v@) && (vsame(self.main_page@, r.main_page.0@)) && (headers_same(self.continuous_page_headers@, r.continuous_page_headers@)) }/*-*/
    fn transform_to(self) -> (r: PublicInputVerifier)
        ensures
            r.log_n_steps@ == self.log_n_steps as nat, // [C19:log_n_steps-carried-exactly]
            r.range_check_min@ == self.range_check_min as nat, // [C19:range_check_min-carried-exactly]
            r.range_check_max@ == self.range_check_max as nat, // [C19:range_check_max-carried-exactly]
            self.layout.v@ < P ==> r.layout@ == self.layout.v@, // [C19:layout-carried-exactly]
            dyn_same(self.dynamic_params, r.dynamic_params), // [C19:dynamic_params-carried-exactly]
            vsame(self.segments@, r.segments@), // [C19:segments-carried-exactly]
            r.padding_addr@ == self.padding_addr as nat, // [C19:padding_addr-carried-exactly]
            self.padding_value.v@ < P ==> r.padding_value@ == self.padding_value.v@, // [C19:padding_value-carried-exactly]
            vsame(self.main_page@, r.main_page.0@), // [C19:main_page-carried-exactly]
            headers_same(self.continuous_page_headers@, r.continuous_page_headers@), // [C19:continuous_page_headers-carried-exactly]
    {
        let dynamic_params = match self.dynamic_params.is_empty() {
            true => None,
            false => {
                let params: Vec<usize> =
                    crate::cli_prelude::map_values_usize(&self.dynamic_params);
                proof { assert(params@.len() == 340); } // [C19:a-wrong-number-of-dynamic-params-is-an-error-not-a-panic]
                Some(crate::swiftness_air::dynamic::dynamic_params_from(params))
            }
        };
        PublicInputVerifier {
            log_n_steps: self.log_n_steps.into(),
            range_check_min: self.range_check_min.into(),
            range_check_max: self.range_check_max.into(),
            layout: self.layout.into(),
            dynamic_params,
            segments: crate::hoist::vec_map_g(self.segments, |x/*+*/: stark_proof::SegmentInfo/*-*/| /*+*/-> (o: SegmentInfoVerifier) ensures x.same_as(o) {/*-*/ x.transform_to() /*+*/}/*-*/),
            padding_addr: self.padding_addr.into(),
            padding_value: self.padding_value.into(),
            main_page: Page(crate::hoist::vec_map_g(self.main_page, |x/*+*/: stark_proof::PubilcMemoryCell/*-*/| /*+*/-> (o: AddrValue) ensures x.same_as(o) {/*-*/ x.transform_to() /*+*/}/*-*/)),
            continuous_page_headers: vec![],
        }
    }
}
//@end
//@repo cli/src/transform.rs impl TransformTo<SegmentInfoVerifier>@SegmentInfo props=C19 implicit=C19
impl TransformTo<SegmentInfoVerifier> for stark_proof::SegmentInfo {
    /*+*/open spec fn same_as(self, r: SegmentInfoVerifier) -> bool { (r.begin_addr@ == self.begin_addr as nat) && (r.stop_ptr@ == self.stop_ptr as nat) }/*-*/
    fn transform_to(self) -> (r: SegmentInfoVerifier)
        ensures
            r.begin_addr@ == self.begin_addr as nat, // [C19:begin_addr-carried-exactly]
            r.stop_ptr@ == self.stop_ptr as nat, // [C19:stop_ptr-carried-exactly]
    {
        SegmentInfoVerifier { begin_addr: self.begin_addr.into(), stop_ptr: self.stop_ptr.into() }
    }
}
//@end
//@repo cli/src/transform.rs impl TransformTo<AddrValue>@PubilcMemoryCell props=C19 implicit=C19
impl TransformTo<AddrValue> for stark_proof::PubilcMemoryCell {
    /*+*/open spec fn same_as(self, r: AddrValue) -> bool { (r.address@ == self.address as nat) && (self.value.v@ < P ==> r.value@ == self.value.v@) }/*-*/
    fn transform_to(self) -> (r: AddrValue)
        ensures
            r.address@ == self.address as nat, // [C19:address-carried-exactly]
            self.value.v@ < P ==> r.value@ == self.value.v@, // [C19:value-carried-exactly]
    {
        AddrValue { address: self.address.into(), value: self.value.into() }
    }
}
//@end
//@repo cli/src/transform.rs impl TransformTo<StarkUnsentCommitmentVerifier>@StarkUnsentCommitment props=C19 implicit=C19 rules=H_vmap:self.oods_values
impl TransformTo<StarkUnsentCommitmentVerifier> for stark_proof::StarkUnsentCommitment {
    /*+*/open spec fn same_as(self, r: StarkUnsentCommitmentVerifier) -> bool { (self.traces.same_as(r.traces)) && (self.composition.v@ < P ==> r.composition@ == self.composition.v@) && (big_same(self.oods_values@, r.oods_values@)) && (self.fri.same_as(r.fri)) && (self.proof_of_work.same_as(r.proof_of_work)) }/*-*/
    fn transform_to(self) -> (r: StarkUnsentCommitmentVerifier)
        ensures
            self.traces.same_as(r.traces), // [C19:traces-carried-exactly]
            self.composition.v@ < P ==> r.composition@ == self.composition.v@, // [C19:composition-carried-exactly]
            big_same(self.oods_values@, r.oods_values@), // [C19:oods_values-carried-exactly]
            self.fri.same_as(r.fri), // [C19:fri-carried-exactly]
            self.proof_of_work.same_as(r.proof_of_work), // [C19:proof_of_work-carried-exactly]
    {
        StarkUnsentCommitmentVerifier {
            traces: self.traces.transform_to(),
            composition: self.composition.into(),
            oods_values: crate::hoist::vec_map_g(self.oods_values, |x/*+*/: BigUint/*-*/| /*+*/-> (o: Felt) ensures x.v@ < P ==> o@ == x.v@ {/*-*/ x.into() /*+*/}/*-*/),
            fri: self.fri.transform_to(),
            proof_of_work: self.proof_of_work.transform_to(),
        }
    }
}
//@end
//@repo cli/src/transform.rs impl TransformTo<TraceUnsentCommitmentVerifier>@TracesUnsentCommitment props=C19 implicit=C19
impl TransformTo<TraceUnsentCommitmentVerifier> for stark_proof::TracesUnsentCommitment {
    /*+*/open spec fn same_as(self, r: TraceUnsentCommitmentVerifier) -> bool { (self.original.v@ < P ==> r.original@ == self.original.v@) && (self.interaction.v@ < P ==> r.interaction@ == self.interaction.v@) }/*-*/
    fn transform_to(self) -> (r: TraceUnsentCommitmentVerifier)
        ensures
            self.original.v@ < P ==> r.original@ == self.original.v@, // [C19:original-carried-exactly]
            self.interaction.v@ < P ==> r.interaction@ == self.interaction.v@, // [C19:interaction-carried-exactly]
    {
        TraceUnsentCommitmentVerifier {
            original: self.original.into(),
            interaction: self.interaction.into(),
        }
    }
}
//@end
//@repo cli/src/transform.rs impl TransformTo<FriUnsentCommitmentVerifier>@FriUnsentCommitment props=C19 implicit=C19 rules=H_vmap:self.last_layer_coefficients,H_vmap:self.inner_layers
impl TransformTo<FriUnsentCommitmentVerifier> for stark_proof::FriUnsentCommitment {
    /*+*/open spec fn same_as(self, r: FriUnsentCommitmentVerifier) -> bool { (big_same(self.last_layer_coefficients@, r.last_layer_coefficients@)) && (big_same(self.inner_layers@, r.inner_layers@)) }/*-*/
    fn transform_to(self) -> (r: FriUnsentCommitmentVerifier)
        ensures
            big_same(self.last_layer_coefficients@, r.last_layer_coefficients@), // [C19:last_layer_coefficients-carried-exactly]
            big_same(self.inner_layers@, r.inner_layers@), // [C19:inner_layers-carried-exactly]
    {
        FriUnsentCommitmentVerifier {
            last_layer_coefficients: crate::hoist::vec_map_g(self.last_layer_coefficients, |x/*+*/: BigUint/*-*/| /*+*/-> (o: Felt) ensures x.v@ < P ==> o@ == x.v@ {/*-*/ x.into() /*+*/}/*-*/)
                ,
            inner_layers: crate::hoist::vec_map_g(self.inner_layers, |x/*+*/: BigUint/*-*/| /*+*/-> (o: Felt) ensures x.v@ < P ==> o@ == x.v@ {/*-*/ x.into() /*+*/}/*-*/),
        }
    }
}
//@end
//@repo cli/src/transform.rs impl TransformTo<PowUnsentCommitmentVerifier>@ProofOfWorkUnsentCommitment props=C19 implicit=C19
impl TransformTo<PowUnsentCommitmentVerifier> for stark_proof::ProofOfWorkUnsentCommitment {
    /*+*/open spec fn same_as(self, r: PowUnsentCommitmentVerifier) -> bool { (0 < self.nonce.v@ < 0x1_0000_0000_0000_0000 ==> r.nonce as nat == self.nonce.v@) }/*-*/
    fn transform_to(self) -> (r: PowUnsentCommitmentVerifier)
        ensures
            0 < self.nonce.v@ < 0x1_0000_0000_0000_0000 ==> r.nonce as nat == self.nonce.v@, // [C19:nonce-carried-exactly]
    {
        proof { assert(self.nonce.v@ < 0x1_0000_0000_0000_0000); } // [C19:a-nonce-above-64-bits-is-an-error-not-truncated]
        proof { let n = self.nonce.v@; if n > 0 { assert(digits64(n) == seq![(n % 0x1_0000_0000_0000_0000) as u64] + digits64(n / 0x1_0000_0000_0000_0000)); assert(digits64(n)[0] == n as u64); } }
        PowUnsentCommitmentVerifier { nonce: self.nonce.to_u64_digits()[0] }
    }
}
//@end
//@repo cli/src/transform.rs impl TransformTo<StarkWitnessVerifier>@StarkWitness props=C19 implicit=C19
impl TransformTo<StarkWitnessVerifier> for stark_proof::StarkWitness {
    /*+*/open spec fn same_as(self, r: StarkWitnessVerifier) -> bool { (self.traces_decommitment.same_as(r.traces_decommitment)) && (self.traces_witness.same_as(r.traces_witness)) && (self.composition_decommitment.same_as(r.composition_decommitment)) && (self.composition_witness.same_as(r.composition_witness)) && (self.fri_witness.same_as(r.fri_witness)) }/*-*/
    fn transform_to(self) -> (r: StarkWitnessVerifier)
        ensures
            self.traces_decommitment.same_as(r.traces_decommitment), // [C19:traces_decommitment-carried-exactly]
            self.traces_witness.same_as(r.traces_witness), // [C19:traces_witness-carried-exactly]
            self.composition_decommitment.same_as(r.composition_decommitment), // [C19:composition_decommitment-carried-exactly]
            self.composition_witness.same_as(r.composition_witness), // [C19:composition_witness-carried-exactly]
            self.fri_witness.same_as(r.fri_witness), // [C19:fri_witness-carried-exactly]
    {
        StarkWitnessVerifier {
            traces_decommitment: self.traces_decommitment.transform_to(),
            traces_witness: self.traces_witness.transform_to(),
            composition_decommitment: self.composition_decommitment.transform_to(),
            composition_witness: self.composition_witness.transform_to(),
            fri_witness: self.fri_witness.transform_to(),
        }
    }
}
//@end
//@repo cli/src/transform.rs impl TransformTo<TraceDecommitmentVerifier>@TracesDecommitment props=C19 implicit=C19
impl TransformTo<TraceDecommitmentVerifier> for stark_proof::TracesDecommitment {
    /*+*/open spec fn same_as(self, r: TraceDecommitmentVerifier) -> bool { (self.original.same_as(r.original)) && (self.interaction.same_as(r.interaction)) }/*-*/
    fn transform_to(self) -> (r: TraceDecommitmentVerifier)
        ensures
            self.original.same_as(r.original), // [C19:original-carried-exactly]
            self.interaction.same_as(r.interaction), // [C19:interaction-carried-exactly]
    {
        TraceDecommitmentVerifier {
            original: self.original.transform_to(),
            interaction: self.interaction.transform_to(),
        }
    }
}
//@end
//@repo cli/src/transform.rs impl TransformTo<TableDecommitmentVerifier>@TableDecommitment props=C19 implicit=C19 rules=H_vmap:self.values
impl TransformTo<TableDecommitmentVerifier> for stark_proof::TableDecommitment {
    /*+*/open spec fn same_as(self, r: TableDecommitmentVerifier) -> bool { (big_same(self.values@, r.values@)) }/*-*/
    fn transform_to(self) -> (r: TableDecommitmentVerifier)
        ensures
            big_same(self.values@, r.values@), // [C19:values-carried-exactly]
    {
        TableDecommitmentVerifier { values: crate::hoist::vec_map_g(self.values, |x/*+*/: BigUint/*-*/| /*+*/-> (o: Felt) ensures x.v@ < P ==> o@ == x.v@ {/*-*/ x.into() /*+*/}/*-*/) }
    }
}
//@end
//@repo cli/src/transform.rs impl TransformTo<TraceWitnessVerifier>@TracesWitness props=C19 implicit=C19
impl TransformTo<TraceWitnessVerifier> for stark_proof::TracesWitness {
    /*+*/open spec fn same_as(self, r: TraceWitnessVerifier) -> bool { (self.original.same_as(r.original)) && (self.interaction.same_as(r.interaction)) }/*-*/
    fn transform_to(self) -> (r: TraceWitnessVerifier)
        ensures
            self.original.same_as(r.original), // [C19:original-carried-exactly]
            self.interaction.same_as(r.interaction), // [C19:interaction-carried-exactly]
    {
        TraceWitnessVerifier {
            original: self.original.transform_to(),
            interaction: self.interaction.transform_to(),
        }
    }
}
//@end
//@repo cli/src/transform.rs impl TransformTo<TableCommitmentWitnessVerifier>@TableCommitmentWitness props=C19 implicit=C19
impl TransformTo<TableCommitmentWitnessVerifier> for stark_proof::TableCommitmentWitness {
    /*+*/open spec fn same_as(self, r: TableCommitmentWitnessVerifier) -> bool { (self.vector.same_as(r.vector)) }/*-*/
    fn transform_to(self) -> (r: TableCommitmentWitnessVerifier)
        ensures
            self.vector.same_as(r.vector), // [C19:vector-carried-exactly]
    {
        TableCommitmentWitnessVerifier { vector: self.vector.transform_to() }
    }
}
//@end
//@repo cli/src/transform.rs impl TransformTo<VectorCommitmentWitnessVerifier>@VectorCommitmentWitness props=C19 implicit=C19 rules=H_vmap:self.authentications
impl TransformTo<VectorCommitmentWitnessVerifier> for stark_proof::VectorCommitmentWitness {
    /*+*/open spec fn same_as(self, r: VectorCommitmentWitnessVerifier) -> bool { (big_same(self.authentications@, r.authentications@)) }/*-*/
    fn transform_to(self) -> (r: VectorCommitmentWitnessVerifier)
        ensures
            big_same(self.authentications@, r.authentications@), // [C19:authentications-carried-exactly]
    {
        VectorCommitmentWitnessVerifier {
            authentications: crate::hoist::vec_map_g(self.authentications, |x/*+*/: BigUint/*-*/| /*+*/-> (o: Felt) ensures x.v@ < P ==> o@ == x.v@ {/*-*/ x.into() /*+*/}/*-*/),
        }
    }
}
//@end
//@repo cli/src/transform.rs impl TransformTo<FriWitnessVerifier>@FriWitness props=C19 implicit=C19 rules=H_vmap:self.layers
impl TransformTo<FriWitnessVerifier> for stark_proof::FriWitness {
    /*+*/open spec fn same_as(self, r: FriWitnessVerifier) -> bool { (vsame(self.layers@, r.layers@)) }/*-*/
    fn transform_to(self) -> (r: FriWitnessVerifier)
        ensures
            vsame(self.layers@, r.layers@), // [C19:layers-carried-exactly]
    {
        FriWitnessVerifier { layers: crate::hoist::vec_map_g(self.layers, |x/*+*/: stark_proof::FriLayerWitness/*-*/| /*+*/-> (o: LayerWitness) ensures x.same_as(o) {/*-*/ x.transform_to() /*+*/}/*-*/) }
    }
}
//@end
//@repo cli/src/transform.rs impl TransformTo<LayerWitness>@FriLayerWitness props=C19 implicit=C19 rules=H_vmap:self.leaves
impl TransformTo<LayerWitness> for stark_proof::FriLayerWitness {
    /*+*/open spec fn same_as(self, r: LayerWitness) -> bool { (big_same(self.leaves@, r.leaves@)) && (self.table_witness.same_as(r.table_witness)) }/*-*/
    fn transform_to(self) -> (r: LayerWitness)
        ensures
            big_same(self.leaves@, r.leaves@), // [C19:leaves-carried-exactly]
            self.table_witness.same_as(r.table_witness), // [C19:table_witness-carried-exactly]
    {
        LayerWitness {
            leaves: crate::hoist::vec_map_g(self.leaves, |x/*+*/: BigUint/*-*/| /*+*/-> (o: Felt) ensures x.v@ < P ==> o@ == x.v@ {/*-*/ x.into() /*+*/}/*-*/),
            table_witness: self.table_witness.transform_to(),
        }
    }
}
//@end
//@repo cli/src/transform.rs impl TransformTo<TableCommitmentWitnessVerifier>@TableCommitmentWitnessFlat props=C19 implicit=C19
impl TransformTo<TableCommitmentWitnessVerifier> for stark_proof::TableCommitmentWitnessFlat {
    /*+*/open spec fn same_as(self, r: TableCommitmentWitnessVerifier) -> bool { (self.vector.same_as(r.vector)) }/*-*/
    fn transform_to(self) -> (r: TableCommitmentWitnessVerifier)
        ensures
            self.vector.same_as(r.vector), // [C19:vector-carried-exactly]
    {
        TableCommitmentWitnessVerifier { vector: self.vector.transform_to() }
    }
}
//@end
//@repo cli/src/transform.rs impl TransformTo<VectorCommitmentWitnessVerifier>@VectorCommitmentWitnessFlat props=C19 implicit=C19 rules=H_vmap:self.authentications
impl TransformTo<VectorCommitmentWitnessVerifier> for stark_proof::VectorCommitmentWitnessFlat {
    /*+*/open spec fn same_as(self, r: VectorCommitmentWitnessVerifier) -> bool { (big_same(self.authentications@, r.authentications@)) }/*-*/
    fn transform_to(self) -> (r: VectorCommitmentWitnessVerifier)
        ensures
            big_same(self.authentications@, r.authentications@), // [C19:authentications-carried-exactly]
    {
        VectorCommitmentWitnessVerifier {
            authentications: crate::hoist::vec_map_g(self.authentications, |x/*+*/: BigUint/*-*/| /*+*/-> (o: Felt) ensures x.v@ < P ==> o@ == x.v@ {/*-*/ x.into() /*+*/}/*-*/),
        }
    }
}
//@end
