// Assembled by /verif/vf/assemble.py from the current text of /repo -- do not edit.
#![feature(allocator_api)]
#![allow(unused_imports, dead_code, unused_variables, unused_mut, non_snake_case, unused_parens, unused_braces, non_upper_case_globals, unused_assignments)]
//@verbatim crates/transcript/src/lib.rs macro_rules ensure,assure,felt
//@verbatim crates/air/src/consts.rs macro_rules felt_nonzero,felt_try_nonzero
// ASSUMPTION (listed in the evidence): the verifier is compiled for a 64-bit target.
vstd::prelude::verus! { global size_of usize == 8; }
