// ===================================================================================
// C19 (the part within reach): cli/src/transform.rs -- every TransformTo impl, against the parser-side
// struct definitions of proof_parser/src/stark_proof.rs (extracted verbatim).
// ===================================================================================
pub mod swiftness_proof_parser {
pub mod stark_proof {
use vstd::prelude::*;
use crate::prelude::*;
use crate::cli_prelude::*;
verus! {
//@verbatim proof_parser/src/stark_proof.rs struct StarkProof,StarkConfig,TracesConfig,TableCommitmentConfig,VectorCommitmentConfig,FriConfig,ProofOfWorkConfig,StarkUnsentCommitment,TracesUnsentCommitment,FriUnsentCommitment,ProofOfWorkUnsentCommitment,StarkWitness,TracesDecommitment,TableDecommitment,TracesWitness,TableCommitmentWitness,VectorCommitmentWitness,TableCommitmentWitnessFlat,VectorCommitmentWitnessFlat,FriWitness,FriLayerWitness,PubilcMemoryCell,SegmentInfo
//@repo proof_parser/src/stark_proof.rs struct PublicInput rules=T_dynmap
pub struct PublicInput {
    pub log_n_steps: u32,
    pub range_check_min: u32,
    pub range_check_max: u32,
    pub layout: BigUint,
    pub dynamic_params: crate::cli_prelude::DynParamMap,
    pub n_segments: usize,
    pub segments: Vec<SegmentInfo>,
    pub padding_addr: u32,
    pub padding_value: BigUint,
    pub main_page_len: usize,
    pub main_page: Vec<PubilcMemoryCell>,
    pub n_continuous_pages: usize,
    pub continuous_page_headers: Vec<BigUint>,
}
//@end
} // verus!
} // mod stark_proof
} // mod swiftness_proof_parser

pub mod swiftness_cli {
pub mod transform {
use vstd::prelude::*;
use crate::prelude::*;
use crate::cli_prelude::*;
use crate::swiftness_proof_parser::stark_proof;
use crate::swiftness_air::{
    dynamic::DynamicParams,
    public_memory::PublicInput as PublicInputVerifier,
    public_memory::dynamic_params_seq,
    trace::{
        config::Config as TraceConfigVerifier, Decommitment as TraceDecommitmentVerifier,
        UnsentCommitment as TraceUnsentCommitmentVerifier, Witness as TraceWitnessVerifier,
    },
    types::{AddrValue, Page, SegmentInfo as SegmentInfoVerifier, ContinuousPageHeader},
};
use crate::swiftness_commitment::{
    table::{
        config::Config as TableConfigVerifier,
        types::{
            Decommitment as TableDecommitmentVerifier, Witness as TableCommitmentWitnessVerifier,
        },
    },
    vector::{
        config::Config as VectorConfigVerifier, types::Witness as VectorCommitmentWitnessVerifier,
    },
};
use crate::swiftness_fri::{
    config::Config as FriConfigVerifier,
    types::{
        LayerWitness, UnsentCommitment as FriUnsentCommitmentVerifier,
        Witness as FriWitnessVerifier,
    },
};
use crate::swiftness_pow::{
    config::Config as PowConfigVerifier, pow::UnsentCommitment as PowUnsentCommitmentVerifier,
};
use crate::swiftness_stark::{
    config::StarkConfig as StarkConfigVerifier,
    types::{
        StarkProof as StarkProofVerifier, StarkUnsentCommitment as StarkUnsentCommitmentVerifier,
        StarkWitness as StarkWitnessVerifier,
    },
};
verus! {
broadcast use crate::prelude::group_felt;

// ---------------------------------------------------------------- specification (property C19, transform.rs part)
// "yields a proof whose configuration, public input, commitments, out-of-domain values, FRI data, nonce, decommitted
//  values and authentication nodes are exactly the values recorded in the file, in stream order"
// -> `same_as`: every verifier-side field equals the parser-side field of the same name as a non-negative integer;
//    vectors have the same length and correspond element by element in the same order.
// A field-element string whose value is >= P has no exact counterpart: starknet-types-core reduces it (stated as the
// guard `v < P ==>` of the `big` clauses; the property names difficulty and nonce as the misfit classes).

/// vectors of nested values: same length, element-wise same_as, same order
pub open spec fn vsame<A: TransformTo<B>, B>(a: Seq<A>, b: Seq<B>) -> bool {
    a.len() == b.len() && forall|i: int| 0 <= i < a.len() ==> (#[trigger] a[i]).same_as(b[i])
}
pub open spec fn big_same(a: Seq<BigUint>, b: Seq<Felt>) -> bool {
    a.len() == b.len() && forall|i: int| 0 <= i < a.len() ==> ((#[trigger] a[i]).v@ < P ==> b[i]@ == a[i].v@)
}
pub open spec fn u32_same(a: Seq<u32>, b: Seq<Felt>) -> bool {
    a.len() == b.len() && forall|i: int| 0 <= i < a.len() ==> (#[trigger] b[i])@ == a[i] as nat
}
/// dynamic parameters: absent iff the file has none; otherwise the values in field order
pub open spec fn dyn_same(m: DynParamMap, d: Option<DynamicParams>) -> bool {
    match d {
        None => m.values_seq().len() == 0,
        Some(dp) => m.values_seq().len() > 0 && dynamic_params_seq(&dp).len() == m.values_seq().len()
            && forall|i: int| 0 <= i < m.values_seq().len() ==> #[trigger] dynamic_params_seq(&dp)[i] == m.values_seq()[i] as nat,
    }
}
/// continuous page headers: the parser's flat (start, size, hash, prod) quadruples, one header each, in order
pub open spec fn headers_same(flat: Seq<BigUint>, hs: Seq<ContinuousPageHeader>) -> bool {
    flat.len() == 4 * hs.len() && forall|i: int| 0 <= i < hs.len() ==> {
        &&& (flat[4 * i].v@ < P ==> (#[trigger] hs[i]).start_address@ == flat[4 * i].v@)
        &&& (flat[4 * i + 1].v@ < P ==> hs[i].size@ == flat[4 * i + 1].v@)
        &&& (flat[4 * i + 2].v@ < P ==> hs[i].hash@ == flat[4 * i + 2].v@)
        &&& (flat[4 * i + 3].v@ < P ==> hs[i].prod@ == flat[4 * i + 3].v@)
    }
}

//@repo cli/src/transform.rs trait TransformTo props=C19
pub trait TransformTo<T> /*+*/: Sized/*-*/ {
    /*+*/spec fn same_as(self, t: T) -> bool;/*-*/
    fn transform_to(self) -> T;
}
//@end
//@include cli/transform_impls.rs
} // verus!
} // mod transform
} // mod swiftness_cli
