// ===================================================================================
// VERIFIED lemma library (nothing here is assumed): powers of two, pow_mod, byte strings.
// ===================================================================================
pub mod lemmas {
use vstd::prelude::*;
use crate::prelude::*;

verus! {

/// results of the field operations are canonical (needed where fadd/fsub/fmul are hidden)
pub broadcast proof fn lemma_fadd_range(a: nat, b: nat) ensures #[trigger] fadd(a, b) < P {}
pub broadcast proof fn lemma_fsub_range(a: nat, b: nat) ensures #[trigger] fsub(a, b) < P {}
pub broadcast proof fn lemma_fmul_range(a: nat, b: nat) ensures #[trigger] fmul(a, b) < P {}
pub broadcast group group_frange { lemma_fadd_range, lemma_fsub_range, lemma_fmul_range }

pub proof fn lemma_pow2_pos(e: nat) ensures pow2(e) >= 1 decreases e { if e > 0 { lemma_pow2_pos((e - 1) as nat); } }

pub proof fn lemma_pow2_mono(a: nat, b: nat)
    requires a <= b
    ensures pow2(a) <= pow2(b)
    decreases b
{
    if a < b { lemma_pow2_mono(a, (b - 1) as nat); lemma_pow2_pos((b - 1) as nat); }
}

pub proof fn lemma_pow2_strict(a: nat, b: nat)
    requires a < b
    ensures pow2(a) < pow2(b)
    decreases b
{
    lemma_pow2_pos(a);
    if a + 1 < b { lemma_pow2_strict(a, (b - 1) as nat); }
}

pub proof fn lemma_pow2_add(a: nat, b: nat)
    ensures pow2(a + b) == pow2(a) * pow2(b)
    decreases b
{
    if b > 0 {
        lemma_pow2_add(a, (b - 1) as nat);
        assert(pow2(a + b) == 2 * pow2((a + b - 1) as nat));
        assert(2 * (pow2(a) * pow2((b - 1) as nat)) == pow2(a) * (2 * pow2((b - 1) as nat))) by(nonlinear_arith);
    } else {
        assert(pow2(a) * 1 == pow2(a));
    }
}

pub proof fn lemma_pow2_251_lt_p()
    ensures pow2(251) < P, pow2(192) < P, pow2(128) < P, pow2(64) < P, pow2(16) == 65536,
{
    assert(pow2(251) < P) by(compute_only);
    lemma_pow2_mono(192, 251);
    lemma_pow2_mono(128, 251);
    lemma_pow2_mono(64, 251);
    assert(pow2(16) == 65536) by(compute_only);
}

/// 2^k as a field element is the integer 2^k as long as it does not wrap.
pub proof fn lemma_pow_mod_two(k: nat)
    requires k <= 251
    ensures pow_mod(2, k) == pow2(k)
    decreases k
{
    lemma_pow2_251_lt_p();
    lemma_pow2_mono(k, 251);
    if k == 0 {
        assert(1nat % P == 1) by(compute_only);
    } else {
        lemma_pow_mod_two((k - 1) as nat);
        assert(pow_mod(2, k) == (2 * pow_mod(2, (k - 1) as nat)) % P);
        assert(pow2(k) == 2 * pow2((k - 1) as nat));
        vstd::arithmetic::div_mod::lemma_small_mod(pow2(k), P);
    }
}

pub proof fn lemma_be_nat_bound(s: Seq<u8>)
    ensures be_nat(s) < pow2(8 * s.len())
    decreases s.len()
{
    if s.len() == 0 {
    } else {
        lemma_be_nat_bound(s.drop_last());
        lemma_pow2_add((8 * (s.len() - 1)) as nat, 8);
        assert(pow2(8) == 256) by(compute_only);
        assert(8 * (s.len() - 1) + 8 == 8 * s.len());
    }
}


/// field division by c of an exact multiple c*q is the integer quotient q
pub proof fn lemma_fdiv_exact(x: nat, c: nat, q: nat)
    requires x == c * q, 0 < c < P, x < P
    ensures fdiv(x, c) == q, q < P
{
    broadcast use crate::prelude::axiom_finv;
    assert(q <= x) by(nonlinear_arith) requires x == c * q, c >= 1;
    assert((q * c) * finv(c) == q * (c * finv(c))) by(nonlinear_arith);
    assert(c * q == q * c) by(nonlinear_arith);
    vstd::arithmetic::div_mod::lemma_mul_mod_noop_general(q as int, (c * finv(c)) as int, P as int);
    vstd::arithmetic::div_mod::lemma_small_mod(q, P);
    let k = (c * finv(c)) % P;
    assert(k == 1) by { assert(fmul(c, finv(c)) == 1); }
    assert(q * k == q) by(nonlinear_arith) requires k == 1;
    assert((q * ((c * finv(c)) % P)) % P == q % P);
}
/// (x / c) * c == x in the field
pub proof fn lemma_fdiv_back(x: nat, c: nat)
    requires 0 < c < P, x < P
    ensures fmul(fdiv(x, c), c) == x
{
    broadcast use crate::prelude::axiom_finv;
    let d = (x * finv(c)) % P;
    vstd::arithmetic::div_mod::lemma_mul_mod_noop_general((x * finv(c)) as int, c as int, P as int);
    assert((x * finv(c)) * c == x * (c * finv(c))) by(nonlinear_arith);
    vstd::arithmetic::div_mod::lemma_mul_mod_noop_general(x as int, (c * finv(c)) as int, P as int);
    vstd::arithmetic::div_mod::lemma_small_mod(x, P);
    let k = (c * finv(c)) % P;
    assert(k == 1) by { assert(fmul(c, finv(c)) == 1); }
    assert(x * k == x) by(nonlinear_arith) requires k == 1;
    assert((x * ((c * finv(c)) % P)) % P == x % P);
}

} // verus!
} // mod lemmas
