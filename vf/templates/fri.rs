pub mod swiftness_fri {
//@include fri/config.rs
//@include fri/types.rs
//@include fri/group.rs
//@include fri/formula.rs
//@include fri/fold_identity.rs
//@include fri/layer.rs
//@include fri/first_layer.rs
//@include fri/last_layer.rs
//@include fri/fri.rs
} // mod swiftness_fri
