pub mod swiftness_fri {
//@include fri/config.rs
} // mod swiftness_fri
