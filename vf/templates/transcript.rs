pub mod swiftness_transcript {
pub mod transcript {
use vstd::prelude::*;
use crate::prelude::*;
use crate::hashes::*;
verus! {
broadcast use crate::prelude::group_felt;

//@repo crates/transcript/src/transcript.rs struct Transcript
pub struct Transcript {
    /*+*/pub/*-*/ digest: Felt,
    /*+*/pub/*-*/ counter: Felt,
}
//@end

/// Abstract state of the Fiat-Shamir transcript: (digest, counter) as field representatives.
pub open spec fn ts_squeeze(d: nat, c: nat) -> nat { poseidon2(d, c) }
pub open spec fn ts_absorb1(d: nat, v: nat) -> nat { poseidon_many(seq![fadd(d, 1), v]) }
pub open spec fn ts_absorb_vec(d: nat, v: Seq<nat>) -> nat { poseidon_many(seq![fadd(d, 1)] + v) }
pub open spec fn felts_view(s: Seq<Felt>) -> Seq<nat> { s.map_values(|f: Felt| f@) }

impl Transcript {
//@repo crates/transcript/src/transcript.rs fn Transcript::new props=C01,C02,C08
    pub fn new(digest: Felt) -> (r: Self)
        ensures r.digest@ == digest@, r.counter@ == 0, // [C01,C02,C08:new-state]
    {
        Self { digest, counter: Felt::from(0) }
    }
//@end
//@repo crates/transcript/src/transcript.rs fn Transcript::digest props=C01,C02,C08
    pub fn digest(&self) -> (r: &Felt)
        ensures r@ == self.digest@,
    {
        &self.digest
    }
//@end
//@repo crates/transcript/src/transcript.rs fn Transcript::random_felt_to_prover props=C01,C02,C08
    pub fn random_felt_to_prover(&mut self) -> (r: Felt)
        ensures
            r@ == ts_squeeze(old(self).digest@, old(self).counter@), // [C01,C02,C08:squeeze-value]
            final(self).digest@ == old(self).digest@,                // [C01,C02,C08:squeeze-keeps-digest]
            final(self).counter@ == fadd(old(self).counter@, 1),     // [C01,C02,C08:squeeze-bumps-counter]
    {
        let hash = poseidon_hash(self.digest, self.counter);
        self.counter += Felt::ONE;
        hash
    }
//@end
//@repo crates/transcript/src/transcript.rs fn Transcript::read_felt_from_prover props=C01,C02,C08
    pub fn read_felt_from_prover(&mut self, val: &Felt)
        ensures
            final(self).digest@ == ts_absorb1(old(self).digest@, val@), // [C01,C02,C08:absorb-felt]
            final(self).counter@ == 0,                                  // [C01,C02,C08:absorb-resets-counter]
    {
        let hash = poseidon_hash_many([&(self.digest + Felt::ONE), val]);
        self.digest = hash;
        self.counter = Felt::ZERO;
    }
//@end
//@repo crates/transcript/src/transcript.rs fn Transcript::read_felt_vector_from_prover props=C01,C02,C08 rules=H_chain_digest
    pub fn read_felt_vector_from_prover(&mut self, val: &[Felt])
        ensures
            final(self).digest@ == ts_absorb_vec(old(self).digest@, felts_view(val@)), // [C01,C02,C08:absorb-vector]
            final(self).counter@ == 0,                                                 // [C01,C02,C08:absorb-resets-counter]
    {
        let hash = poseidon_hash_many(crate::hoist::chain_digest(&self.digest, val));
        self.digest = hash;
        self.counter = Felt::ZERO;
    }
//@end
//@repo crates/transcript/src/transcript.rs fn Transcript::read_uint64_from_prover props=C01,C02,C08,C09
    pub fn read_uint64_from_prover(&mut self, val: u64)
        ensures
            final(self).digest@ == ts_absorb1(old(self).digest@, val as nat), // [C01,C02,C08,C09:absorb-u64]
            final(self).counter@ == 0,
    {
        self.read_felt_from_prover(&Felt::from(val))
    }
//@end
//@repo crates/transcript/src/transcript.rs fn Transcript::random_felts_to_prover props=C01,C02,C08,C17
    pub fn random_felts_to_prover(&mut self, mut len: Felt) -> (res: Vec<Felt>)
        ensures
            res@.len() == len@, // [C08:squeeze-n-count]
            forall|i: int| 0 <= i < len@ ==> (#[trigger] res@[i])@ == ts_squeeze(old(self).digest@, (old(self).counter@ + i) as nat % P), // [C08:squeeze-n-values]
            final(self).digest@ == old(self).digest@,
    {
        let mut res/*+*/: Vec<Felt>/*-*/ = Vec::new();
        let ghost len0 = len@;
        while len > Felt::ZERO
            invariant
                len@ <= len0,
                res@.len() == len0 - len@,
                self.digest@ == old(self).digest@,
                self.counter@ == (old(self).counter@ + res@.len()) as nat % P,
                forall|i: int| 0 <= i < res@.len() ==> (#[trigger] res@[i])@ == ts_squeeze(old(self).digest@, (old(self).counter@ + i) as nat % P),
            decreases len@, // [C17:loop-linear-in-field-value]
        {
            res.push(self.random_felt_to_prover());
            len -= Felt::ONE
        }
        res
    }
//@end
}
} // verus!
} // mod transcript
} // mod swiftness_transcript
