pub mod pow_bits {
// C09: "the hash starts with n zero bits" (bit-level definition) <==> the threshold comparison the code performs.
use vstd::prelude::*;
use vstd::arithmetic::div_mod::*;
use crate::prelude::*;
verus! {
/// bit j of a byte, most significant first
pub open spec fn byte_bit(b: u8, j: int) -> nat { (b as nat / pow2((7 - j) as nat)) % 2 }
pub open spec fn bit_at(s: Seq<u8>, i: int) -> nat { byte_bit(s[i / 8], i % 8) }
/// the string starts with (at least) n zero bits
pub open spec fn starts_with_zero_bits(s: Seq<u8>, n: nat) -> bool { forall|i: int| 0 <= i < n ==> #[trigger] bit_at(s, i) == 0 }

proof fn lz_pow2_pos(e: nat) ensures pow2(e) > 0 decreases e { if e > 0 { lz_pow2_pos((e - 1) as nat); } }
proof fn lz_pow2_add(a: nat, b: nat) ensures pow2(a + b) == pow2(a) * pow2(b) decreases a {
    if a == 0 { assert(1 * pow2(b) == pow2(b)) by(nonlinear_arith); } else {
        lz_pow2_add((a - 1) as nat, b);
        assert(2 * (pow2((a - 1) as nat) * pow2(b)) == (2 * pow2((a - 1) as nat)) * pow2(b)) by(nonlinear_arith);
    }
}
proof fn lz_pow2_8() ensures pow2(8) == 256, pow2(0) == 1, pow2(1) == 2 { assert(pow2(8) == 256) by(compute_only); assert(pow2(1) == 2) by(compute_only); }

/// one byte: its top m bits are zero  <==>  b < 2^(8-m)
proof fn lemma_byte(b: u8, m: nat)
    requires m <= 8
    ensures (forall|j: int| 0 <= j < m ==> #[trigger] byte_bit(b, j) == 0) <==> (b as nat) < pow2((8 - m) as nat)
    decreases m
{
    lz_pow2_8();
    if m == 0 {
    } else {
        let k = (m - 1) as nat;
        lemma_byte(b, k);
        // bit (7-k):  q = b / 2^(7-k);  b < 2^(8-k) <==> q < 2;  (q < 2 && q % 2 == 0) <==> q == 0 <==> b < 2^(7-k)
        let w = pow2((7 - k) as nat);
        lz_pow2_pos((7 - k) as nat);
        assert(pow2((8 - k) as nat) == 2 * w);
        let q = b as nat / w;
        lemma_fundamental_div_mod(b as int, w as int);
        lemma_mod_bound(b as int, w as int);
        assert((b as nat) < 2 * w <==> q < 2) by(nonlinear_arith) requires b as nat == w * q + (b as nat) % w, (b as nat) % w < w, w > 0;
        assert((b as nat) < w <==> q == 0) by(nonlinear_arith) requires b as nat == w * q + (b as nat) % w, (b as nat) % w < w, w > 0;
        assert((8 - m) as nat == (7 - k) as nat);
        if (b as nat) < pow2((8 - m) as nat) {
            assert forall|j: int| 0 <= j < m implies #[trigger] byte_bit(b, j) == 0 by {
                if j == k { assert(q == 0); } else { assert((b as nat) < pow2((8 - k) as nat)); }
            }
        }
        if forall|j: int| 0 <= j < m ==> #[trigger] byte_bit(b, j) == 0 {
            assert(forall|j: int| 0 <= j < k ==> #[trigger] byte_bit(b, j) == 0);
            assert(byte_bit(b, k as int) == 0);
            assert(q < 2 && q % 2 == 0);
        }
    }
}

/// THE LEMMA: for every byte string and every n <= 8*len
pub proof fn lemma_leading_zero_bits(s: Seq<u8>, n: nat)
    requires n <= 8 * s.len()
    ensures starts_with_zero_bits(s, n) <==> be_nat(s) < pow2((8 * s.len() - n) as nat)
    decreases s.len()
{
    lz_pow2_8();
    if s.len() == 0 {
    } else {
        let init = s.drop_last();
        let last = s.last();
        let l1 = init.len();
        // bits of init are bits of s
        assert forall|i: int| 0 <= i < 8 * l1 implies bit_at(s, i) == bit_at(init, i) by { assert(s[i / 8] == init[i / 8]); }
        if n <= 8 * l1 {
            lemma_leading_zero_bits(init, n);
            let e = (8 * l1 - n) as nat;
            lz_pow2_add(e, 8);
            assert((8 * s.len() - n) as nat == e + 8);
            lz_pow2_pos(e);
            let a = be_nat(init); let mm = pow2(e);
            assert(a < mm <==> a * 256 + (last as nat) < mm * 256) by(nonlinear_arith) requires (last as nat) < 256;
            assert(starts_with_zero_bits(s, n) <==> starts_with_zero_bits(init, n));
        } else {
            let m = (n - 8 * l1) as nat;
            lemma_leading_zero_bits(init, 8 * l1);
            assert((8 * l1 - 8 * l1) as nat == 0);
            lemma_byte(last, m);
            assert((8 * s.len() - n) as nat == (8 - m) as nat);
            lz_pow2_pos((8 - m) as nat);
            // pow2(8-m) <= 256
            assert(pow2((8 - m) as nat) <= 256) by { lz_pow2_add((8 - m) as nat, m); lz_pow2_pos(m); assert(pow2((8 - m) as nat) * pow2(m) >= pow2((8 - m) as nat)) by(nonlinear_arith) requires pow2(m) >= 1; }
            let a = be_nat(init);
            assert(a >= 1 ==> a * 256 + (last as nat) >= 256) by(nonlinear_arith);
            // bits 8*l1 + j of s are the bits of the last byte
            assert forall|j: int| 0 <= j < 8 implies #[trigger] bit_at(s, 8 * l1 + j) == byte_bit(last, j) by {
                assert((8 * l1 + j) / 8 == l1 && (8 * l1 + j) % 8 == j) by { lemma_fundamental_div_mod_converse(8 * l1 + j, 8, l1 as int, j); }
            }
            if starts_with_zero_bits(s, n) {
                assert(starts_with_zero_bits(init, 8 * l1)) by {
                    assert forall|i: int| 0 <= i < 8 * l1 implies bit_at(init, i) == 0 by { assert(bit_at(s, i) == 0); }
                }
                assert(a == 0);
                assert forall|j: int| 0 <= j < m implies #[trigger] byte_bit(last, j) == 0 by { assert(bit_at(s, 8 * l1 + j) == 0); }
            }
            if be_nat(s) < pow2((8 - m) as nat) {
                assert(a == 0);
                assert(starts_with_zero_bits(init, 8 * l1));
                assert forall|i: int| 0 <= i < n implies bit_at(s, i) == 0 by {
                    if i < 8 * l1 { assert(bit_at(init, i) == 0); } else { let j = i - 8 * l1; assert(bit_at(s, 8 * l1 + j) == 0); }
                }
            }
        }
    }
}

/// the first 16 bytes carry the first 128 bits
pub proof fn lemma_prefix_bits(h: Seq<u8>, n: nat)
    requires h.len() >= 16, n <= 128
    ensures starts_with_zero_bits(h, n) <==> starts_with_zero_bits(h.subrange(0, 16), n)
{
    let p = h.subrange(0, 16);
    if starts_with_zero_bits(h, n) {
        assert forall|i: int| 0 <= i < n implies #[trigger] bit_at(p, i) == 0 by { assert(p[i / 8] == h[i / 8]); assert(bit_at(h, i) == 0); }
    }
    if starts_with_zero_bits(p, n) {
        assert forall|i: int| 0 <= i < n implies #[trigger] bit_at(h, i) == 0 by { assert(p[i / 8] == h[i / 8]); assert(bit_at(p, i) == 0); }
    }
}
/// what verify_pow compares, read as bits     [C09:lemma-threshold-comparison-is-n-leading-zero-bits]
pub proof fn lemma_threshold_is_zero_bits(h: Seq<u8>, n: nat)
    requires h.len() >= 16, n <= 128
    ensures be_nat(h.subrange(0, 16)) < pow2((128 - n) as nat) <==> starts_with_zero_bits(h, n) // [C09:lemma-threshold-comparison-is-n-leading-zero-bits]
{
    lemma_prefix_bits(h, n);
    lemma_leading_zero_bits(h.subrange(0, 16), n);
}
} // verus!
} // mod pow_bits
