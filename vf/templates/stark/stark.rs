pub mod stark {
use vstd::prelude::*;
use crate::prelude::*;
use crate::hoist::*;
use crate::lemmas::*;
use crate::numth::*;
use crate::swiftness_stark::{
    commit::*, queries::{generate_queries, raw_queries}, types::StarkProof, verify::*, config::config_ok,
};
use crate::swiftness_air::{
    domains::{StarkDomains, domains_ok},
    layout::{GenericLayoutTrait, LayoutTrait, LayoutSpec, PublicInputError},
    public_memory::public_input_hash,
};
use crate::swiftness_fri::config::{fri_ok, steps_sum, steps_sum_mono};
use crate::swiftness_transcript::transcript::*;
verus! {
broadcast use crate::prelude::group_felt;
//@verbatim crates/stark/src/stark.rs enum Error
//@from_variants crates/stark/src/stark.rs Error

/// ORACLE (property C01): everything that an accepted proof has been checked against.  Written from the STARK
/// protocol (the statement and the reference verifier): configuration not vacuous, public input valid, every
/// challenge derived by Fiat-Shamir from the messages before it, out-of-domain consistency at the positions the
/// DEEP evaluation reads, every table and every FRI layer decommitted against its root, last layer low degree.
pub open spec fn accepted<Layout: LayoutTrait + GenericLayoutTrait>(p: &StarkProof, security_bits: nat) -> bool {
    exists|domains: StarkDomains, sc: crate::swiftness_stark::types::StarkCommitment<Layout::InteractionElements>, queries: Seq<Felt>|
        #[trigger] accepted_with::<Layout>(p, security_bits, &domains, &sc, queries)
}
/// the same, for explicit values of the derived objects (domains, commitment, query indices)
pub open spec fn accepted_with<Layout: LayoutTrait + GenericLayoutTrait>(p: &StarkProof, security_bits: nat, domains: &StarkDomains,
        sc: &crate::swiftness_stark::types::StarkCommitment<Layout::InteractionElements>, queries: Seq<Felt>) -> bool {
    let pi = &p.public_input;
    let n1 = Layout::n_cols(pi).0;
    let n2 = Layout::n_cols(pi).1;
    let t = p.config.log_trace_domain_size@;
    let c = p.config.log_n_cosets@;
    let d0 = public_input_hash(pi, p.config.n_verifier_friendly_commitment_layers@);
    &&& Layout::params_known(pi)
    &&& config_ok(&p.config, security_bits, n1, n2)                                     // [cfg]
    &&& domains_ok(domains, t, c)
    &&& Layout::public_input_ok(pi, domains)                                            // [pi]
    &&& commit_facts::<Layout>(p, domains, d0, sc)                                      // [fs], [oods-len], [oods-eq], [pow]
    &&& queries_facts(queries, d_pow(d0, &p.unsent_commitment, p.config.fri.n_layers@), p.config.n_queries@, pow2(t + c)) // [queries]
    &&& verify_ok::<Layout>(n1 as usize, n2 as usize, pi, queries, sc, &p.witness, domains) // [trace-dec], [comp-dec], [deep-coupled], [fri-layers], [fri-last]
}

/// the postcondition of stark_commit, for the proof's own data
pub open spec fn commit_facts<Layout: LayoutTrait>(p: &StarkProof, domains: &StarkDomains, d0: nat,
        c: &crate::swiftness_stark::types::StarkCommitment<Layout::InteractionElements>) -> bool {
    let u = &p.unsent_commitment;
    let config = &p.config;
    let alpha = ts_squeeze(d_traces(d0, u), 0);
    let z = ts_squeeze(d_composition(d0, u), 0);
    let alpha2 = ts_squeeze(d_oods(d0, u), 0);
    &&& c.traces.original.config == config.traces.original && c.traces.original.vector_commitment.config == config.traces.original.vector
            && c.traces.original.vector_commitment.commitment_hash == u.traces.original
    &&& c.traces.interaction.config == config.traces.interaction && c.traces.interaction.vector_commitment.config == config.traces.interaction.vector
            && c.traces.interaction.vector_commitment.commitment_hash == u.traces.interaction
    &&& c.composition.config == config.composition && c.composition.vector_commitment.config == config.composition.vector
            && c.composition.vector_commitment.commitment_hash == u.composition
    &&& Layout::ie_ok(&c.traces.interaction_elements, ts_absorb1(d0, u.traces.original@))
    &&& c.interaction_after_composition@ == z
    &&& is_powers(fv(c.interaction_after_oods@), 1, alpha2, (Layout::MASK_SIZE + Layout::CONSTRAINT_DEGREE) as nat)
    &&& c.oods_values@ == u.oods_values@ && u.oods_values@.len() == Layout::MASK_SIZE + Layout::CONSTRAINT_DEGREE
    &&& (exists|coeffs: Seq<nat>| is_powers(coeffs, 1, alpha, Layout::N_CONSTRAINTS as nat)
            && crate::swiftness_stark::oods::oods_consistent::<Layout>(fv(u.oods_values@), &c.traces.interaction_elements, &p.public_input, coeffs, z, domains.trace_domain_size@, domains.trace_generator@))
    &&& c.fri.config == config.fri && c.fri.last_layer_coefficients == u.fri.last_layer_coefficients
    &&& crate::swiftness_fri::fri::fri_commit_pre(&u.fri, &config.fri)
    &&& c.fri.inner_layers@.len() == config.fri.n_layers@ - 1 && c.fri.eval_points@.len() == config.fri.n_layers@ - 1
    &&& (forall|i: int| 0 <= i < config.fri.n_layers@ - 1 ==> (#[trigger] c.fri.inner_layers@[i]).config == config.fri.inner_layers@[i]
            && c.fri.inner_layers@[i].vector_commitment.config == config.fri.inner_layers@[i].vector
            && c.fri.inner_layers@[i].vector_commitment.commitment_hash == u.fri.inner_layers@[i])
    &&& (forall|i: int| 0 <= i < config.fri.n_layers@ - 1 ==> (#[trigger] c.fri.eval_points@[i])@ == crate::swiftness_fri::fri::round_eval_point(d_oods(d0, u), fv(u.fri.inner_layers@), i as nat))
    &&& crate::swiftness_pow::pow::pow_ok(be32(d_fri(d0, u, config.fri.n_layers@)), config.proof_of_work.n_bits, u.proof_of_work.nonce)
}

/// the postcondition of generate_queries
pub open spec fn queries_facts(queries: Seq<Felt>, digest: nat, n: nat, bound: nat) -> bool {
    &&& strictly_increasing(fv(queries))
    &&& (forall|i: int| 0 <= i < queries.len() ==> (#[trigger] queries[i])@ < bound)
    &&& queries.len() <= n
    &&& (forall|x: nat| fv(queries).contains(x) <==> raw_queries(digest, 0, n, bound).contains(x))
}

impl StarkProof {
//@repo crates/stark/src/stark.rs fn StarkProof::verify props=C01,C02,C08
    pub fn verify<Layout: GenericLayoutTrait + LayoutTrait>(
        &self,
        security_bits: Felt,
    ) -> (r: Result<(Felt, Felt), Error>)
        requires
            self.public_input.continuous_page_headers@.len() < usize::MAX, // [C18:header-count+1-fits-usize]
        ensures
            r.is_ok() ==> accepted::<Layout>(self, security_bits@), // [C01,C02,C08:accepted-only-if-every-protocol-check-holds-for-non-vacuous-parameters]
    {
        proof { Layout::lemma_constants(); }
        let n_original_columns =
            Layout::get_num_columns_first(&self.public_input).ok_or(Error::ColumnMissing)?;
        let n_interaction_columns =
            Layout::get_num_columns_second(&self.public_input).ok_or(Error::ColumnMissing)?;
        proof {
            vstd::arithmetic::div_mod::lemma_small_mod(n_original_columns as nat, P);
            vstd::arithmetic::div_mod::lemma_small_mod(n_interaction_columns as nat, P);
            lemma_pow2_251_lt_p();
            assert(pow2(64) == 0x10000000000000000nat) by(compute_only);
        }
        self.config.validate(
            security_bits,
            n_original_columns.into(),
            n_interaction_columns.into(),
        )?;
        proof {
            // consequences of config_ok used below: small exponents, bounded layer count
            steps_sum_mono(self.config.fri.fri_step_sizes@, 1, self.config.fri.n_layers@ as int);
            lemma_steps_sum_bound(self.config.fri.fri_step_sizes@, self.config.fri.n_layers@ as int, self.config.fri.n_layers@ as int,
                self.config.log_n_cosets@, self.config.n_verifier_friendly_commitment_layers@, &self.config.fri);
        }

        // The composition polynomial is committed as CONSTRAINT_DEGREE columns.
        if self.config.composition.n_columns != Felt::from(Layout::CONSTRAINT_DEGREE) {
            return Err(Error::CompositionColumnsInvalid);
        }

        // Validate the public input.
        let stark_domains =
            StarkDomains::new(self.config.log_trace_domain_size, self.config.log_n_cosets);

        Layout::validate_public_input(&self.public_input, &stark_domains)?;

        proof { Layout::lemma_composition_pre(&self.public_input, &stark_domains); }
        // Compute the initial hash seed for the Fiat-Shamir transcript.
        let digest = self.public_input.get_hash(self.config.n_verifier_friendly_commitment_layers);
        // Construct the transcript.
        let mut transcript = Transcript::new(digest);

        // STARK commitment phase.
        let stark_commitment = stark_commit::<Layout>(
            &mut transcript,
            &self.public_input,
            &self.unsent_commitment,
            &self.config,
            &stark_domains,
        )?;
        proof {
            lemma_pow_mod_two(self.config.log_trace_domain_size@ + self.config.log_n_cosets@);
            lemma_pow2_pos(self.config.log_trace_domain_size@ + self.config.log_n_cosets@);
        }

        // Generate queries.
        let queries = generate_queries(
            &mut transcript,
            self.config.n_queries,
            stark_domains.eval_domain_size,
        );
        proof {
            vstd::arithmetic::div_mod::lemma_small_mod(self.config.n_queries@, P);
            assert(commit_facts::<Layout>(self, &stark_domains, digest@, &stark_commitment));
            assert(queries_facts(queries@, d_pow(digest@, &self.unsent_commitment, self.config.fri.n_layers@), self.config.n_queries@, pow2(self.config.log_trace_domain_size@ + self.config.log_n_cosets@)));
        }

        proof {
            assert forall|k: int| 1 <= k < self.config.fri.n_layers@ implies 1 <= (#[trigger] self.config.fri.fri_step_sizes@[k])@ <= 4 by {
                assert(crate::swiftness_fri::config::layer_ok(&self.config.fri, k, self.config.n_verifier_friendly_commitment_layers@));
            }
        }
        // STARK verify phase.
        /*+*/let ghost sc = stark_commitment;/*-*/
        stark_verify::<Layout>(
            n_original_columns,
            n_interaction_columns,
            &self.public_input,
            &queries,
            stark_commitment,
            &self.witness,
            &stark_domains,
        )?;
        proof {
            assert(verify_ok::<Layout>(n_original_columns, n_interaction_columns, &self.public_input, queries@, &sc, &self.witness, &stark_domains));
            assert(Layout::public_input_ok(&self.public_input, &stark_domains));
            assert(accepted_with::<Layout>(self, security_bits@, &stark_domains, &sc, queries@));
        }

        Ok(Layout::verify_public_input(&self.public_input)?)
    }
//@end
}

/// under fri_ok the partial sums of steps are at most 4 per layer
pub proof fn lemma_steps_sum_bound(s: Seq<Felt>, n: int, nl: int, lc: nat, nvf: nat, c: &crate::swiftness_fri::config::Config)
    requires fri_ok(c, lc, nvf), s == c.fri_step_sizes@, 1 <= n <= nl, nl == c.n_layers@
    ensures 0 <= steps_sum(s, n) <= 4 * (n - 1)
    decreases n
{
    if n > 1 {
        lemma_steps_sum_bound(s, n - 1, nl, lc, nvf, c);
        assert(crate::swiftness_fri::config::layer_ok(c, n - 1, nvf));
    }
}
} // verus!
} // mod stark
