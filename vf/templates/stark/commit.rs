pub mod commit {
use vstd::prelude::*;
use vstd::arithmetic::div_mod::*;
use crate::prelude::*;
use crate::hashes::*;
use crate::hoist::*;
use crate::lemmas::*;
use crate::swiftness_air::{domains::StarkDomains, layout::{LayoutTrait, LayoutSpec}, public_memory::PublicInput};
use crate::swiftness_commitment::table::commit::table_commit;
use crate::swiftness_fri::fri::{self, fri_commit, fri_validate_unsent_commitment, rounds_digest, round_eval_point, fri_commit_pre};
use crate::swiftness_pow::pow;
use crate::swiftness_pow::pow::pow_ok;
use crate::swiftness_transcript::transcript::*;
use crate::swiftness_stark::{
    config::StarkConfig,
    oods::{self, verify_oods, oods_consistent},
    types::{StarkCommitment, StarkUnsentCommitment},
};
verus! {
broadcast use crate::prelude::group_felt;
//@verbatim crates/stark/src/commit.rs enum Error
//@from_variants crates/stark/src/commit.rs Error

/// powers_spec(a, n)[i] = a^i
pub open spec fn is_powers(s: Seq<nat>, init: nat, alpha: nat, n: nat) -> bool {
    s.len() == n && forall|i: int| 0 <= i < n ==> #[trigger] s[i] == fmul(init, pow_mod(alpha, i as nat))
}

// ---------------------------------------------------------------------------------------------
// SPEC (C08): the Fiat-Shamir script of the commitment phase, as digests after each absorbed message
pub open spec fn d_traces(d0: nat, u: &StarkUnsentCommitment) -> nat { ts_absorb1(ts_absorb1(d0, u.traces.original@), u.traces.interaction@) }
pub open spec fn d_composition(d0: nat, u: &StarkUnsentCommitment) -> nat { ts_absorb1(d_traces(d0, u), u.composition@) }
pub open spec fn d_oods(d0: nat, u: &StarkUnsentCommitment) -> nat { ts_absorb_vec(d_composition(d0, u), felts_view(u.oods_values@)) }
pub open spec fn d_fri(d0: nat, u: &StarkUnsentCommitment, n_layers: nat) -> nat {
    ts_absorb_vec(rounds_digest(d_oods(d0, u), fv(u.fri.inner_layers@), (n_layers - 1) as nat), felts_view(u.fri.last_layer_coefficients@))
}
pub open spec fn d_pow(d0: nat, u: &StarkUnsentCommitment, n_layers: nat) -> nat { ts_absorb1(d_fri(d0, u, n_layers), u.proof_of_work.nonce as nat) }

/// interior precondition: what config validation established
pub open spec fn commit_pre(c: &StarkConfig) -> bool {
    &&& 2 <= c.fri.n_layers@ <= 15
    &&& c.fri.log_last_layer_degree_bound@ <= 15
    &&& c.fri.inner_layers@.len() + 1 >= c.fri.n_layers@
    &&& c.proof_of_work.n_bits <= 128
}

//@repo crates/stark/src/commit.rs fn stark_commit props=C01,C02,C08
pub fn stark_commit<Layout: LayoutTrait>(
    transcript: &mut Transcript,
    public_input: &PublicInput,
    unsent_commitment: &StarkUnsentCommitment,
    config: &StarkConfig,
    stark_domains: &StarkDomains,
) -> (r: Result<StarkCommitment<Layout::InteractionElements>, Error>)
    requires
        commit_pre(config), // [C18:stark-commit-after-config-validation]
        Layout::composition_pre(public_input, stark_domains.trace_domain_size@), // [C18:stark-commit-after-public-input-validation]
    ensures
        r.is_ok() ==> ({
            let c = r->Ok_0;
            let d0 = old(transcript).digest@;
            let u = unsent_commitment;
            let alpha = ts_squeeze(d_traces(d0, u), 0);
            let z = ts_squeeze(d_composition(d0, u), 0);
            let alpha2 = ts_squeeze(d_oods(d0, u), 0);
            // ---- commitments carry the roots and configs they were read with
            &&& c.traces.original.config == config.traces.original && c.traces.original.vector_commitment.config == config.traces.original.vector
                    && c.traces.original.vector_commitment.commitment_hash == u.traces.original   // [C01,C02,C08:original-trace-commitment]
            &&& c.traces.interaction.config == config.traces.interaction && c.traces.interaction.vector_commitment.config == config.traces.interaction.vector
                    && c.traces.interaction.vector_commitment.commitment_hash == u.traces.interaction // [C01,C02,C08:interaction-trace-commitment]
            &&& c.composition.config == config.composition && c.composition.vector_commitment.config == config.composition.vector
                    && c.composition.vector_commitment.commitment_hash == u.composition            // [C01,C02,C08:composition-commitment]
            // ---- challenges are squeezed exactly after the messages that precede them
            &&& Layout::ie_ok(&c.traces.interaction_elements, ts_absorb1(d0, u.traces.original@))   // [C01,C02,C08:interaction-elements-after-original-root]
            &&& c.interaction_after_composition@ == z                                              // [C01,C02,C08:oods-point-after-composition-root]
            &&& is_powers(fv(c.interaction_after_oods@), 1, alpha2, (Layout::MASK_SIZE + Layout::CONSTRAINT_DEGREE) as nat) // [C01,C02,C08,C16:deep-coefficients-are-powers-of-the-challenge-after-the-oods-values]
            // ---- out-of-domain check
            &&& c.oods_values@ == u.oods_values@ && u.oods_values@.len() == Layout::MASK_SIZE + Layout::CONSTRAINT_DEGREE // [C01,C02,C18:commitment-keeps-the-checked-oods-vector]
            &&& (exists|coeffs: Seq<nat>| is_powers(coeffs, 1, alpha, Layout::N_CONSTRAINTS as nat)
                    && oods_consistent::<Layout>(fv(u.oods_values@), &c.traces.interaction_elements, public_input, coeffs, z, stark_domains.trace_domain_size@, stark_domains.trace_generator@)) // [C01,C02,C16:trace-and-composition-agree-at-the-oods-point-with-coefficients-alpha^i]
            // ---- FRI commitment
            &&& c.fri.config == config.fri && c.fri.last_layer_coefficients == u.fri.last_layer_coefficients
            &&& fri_commit_pre(&u.fri, &config.fri)                                                  // [C02,C18:fri-unsent-commitment-shape-validated]
            &&& c.fri.inner_layers@.len() == config.fri.n_layers@ - 1 && c.fri.eval_points@.len() == config.fri.n_layers@ - 1
            &&& (forall|i: int| 0 <= i < config.fri.n_layers@ - 1 ==> (#[trigger] c.fri.inner_layers@[i]).config == config.fri.inner_layers@[i]
                    && c.fri.inner_layers@[i].vector_commitment.config == config.fri.inner_layers@[i].vector
                    && c.fri.inner_layers@[i].vector_commitment.commitment_hash == u.fri.inner_layers@[i]) // [C01,C02,C08:fri-inner-layer-commitments]
            &&& (forall|i: int| 0 <= i < config.fri.n_layers@ - 1 ==> (#[trigger] c.fri.eval_points@[i])@ == round_eval_point(d_oods(d0, u), fv(u.fri.inner_layers@), i as nat)) // [C01,C02,C08:fri-eval-points-after-their-layer-roots]
            // ---- proof of work on the digest after FRI, nonce absorbed before queries are drawn
            &&& pow_ok(be32(d_fri(d0, u, config.fri.n_layers@)), config.proof_of_work.n_bits, u.proof_of_work.nonce) // [C01,C02,C09:pow-checked-on-the-digest-after-the-fri-commitment]
            &&& final(transcript).digest@ == d_pow(d0, u, config.fri.n_layers@) && final(transcript).counter@ == 0 // [C01,C02,C08,C09:nonce-absorbed-last-before-queries]
        }),
{
    proof { Layout::lemma_constants(); }
    let ghost d0 = transcript.digest@;
    // Read the commitment of the 'traces' component.
    let traces_commitment =
        Layout::traces_commit(transcript, &unsent_commitment.traces, config.traces.clone());

    // Generate interaction values after traces commitment.
    let composition_alpha = transcript.random_felt_to_prover();
    let traces_coefficients =
        powers_array(Felt::ONE, composition_alpha, Layout::N_CONSTRAINTS as u32);

    // Read composition commitment.
    let composition_commitment =
        table_commit(transcript, unsent_commitment.composition, config.composition.clone());

    // Generate interaction values after composition.
    let interaction_after_composition = transcript.random_felt_to_prover();

    // Read OODS values.
    transcript.read_felt_vector_from_prover(&unsent_commitment.oods_values);

    // Check that the trace and the composition agree at oods_point.
    verify_oods::<Layout>(
        &unsent_commitment.oods_values,
        &traces_commitment.interaction_elements,
        public_input,
        &traces_coefficients,
        &interaction_after_composition,
        &stark_domains.trace_domain_size,
        &stark_domains.trace_generator,
    )?;

    // Generate interaction values after OODS.
    let oods_alpha = transcript.random_felt_to_prover();
    let oods_coefficients =
        powers_array(Felt::ONE, oods_alpha, (Layout::MASK_SIZE + Layout::CONSTRAINT_DEGREE) as u32);

    // Read fri commitment.
    fri_validate_unsent_commitment(&unsent_commitment.fri, &config.fri)?;
    let fri_commitment = fri_commit(transcript, unsent_commitment.fri.clone(), config.fri.clone());

    // Proof of work commitment phase.
    unsent_commitment.proof_of_work.commit(transcript, &config.proof_of_work)?;

    // Return commitment.
    Ok(StarkCommitment {
        traces: traces_commitment,
        composition: composition_commitment,
        interaction_after_composition,
        oods_values: unsent_commitment.oods_values.clone(),
        interaction_after_oods: oods_coefficients,
        fri: fri_commitment,
    })
}
//@end

//@repo crates/stark/src/commit.rs fn powers_array props=C16 rules=R1_for_underscore
fn powers_array(initial: Felt, alpha: Felt, n: u32) -> (r: Vec<Felt>)
    ensures
        is_powers(fv(r@), initial@, alpha@, n as nat), // [C16:i-th-coefficient-is-alpha^i]
{
    let mut array/*+*/: Vec<Felt>/*-*/ = Vec::with_capacity(n as usize);
    let mut value = initial;

    for i__ in 0..n
        invariant
            array@.len() == i__,
            value@ == fmul(initial@, pow_mod(alpha@, i__ as nat)),
            forall|j: int| 0 <= j < i__ ==> (#[trigger] array@[j])@ == fmul(initial@, pow_mod(alpha@, j as nat)),
    {
        array.push(value);
        proof {
            // (init * a^i) * a == init * (a * a^i)  (mod P)
            let p = pow_mod(alpha@, i__ as nat);
            lemma_mul_mod_noop_general((initial@ * p) as int, alpha@ as int, P as int);
            lemma_mul_mod_noop_general(initial@ as int, (alpha@ * p) as int, P as int);
            assert((initial@ * p) * alpha@ == initial@ * (alpha@ * p)) by(nonlinear_arith);
            assert(pow_mod(alpha@, (i__ + 1) as nat) == (alpha@ * p) % P);
        }
        value *= alpha;
    }
    proof {
        lemma_small_mod(initial@, P);
        assert(1nat % P == 1) by(compute_only);
        assert(initial@ * 1 == initial@);
    }

    array
}
//@end
} // verus!
} // mod commit
