pub mod oods {
use vstd::prelude::*;
use crate::prelude::*;
use crate::hoist::*;
use crate::lemmas::*;
use crate::swiftness_air::{
    layout::{CompositionPolyEvalError, LayoutTrait, LayoutSpec},
    public_memory::PublicInput,
    trace,
};
use crate::swiftness_commitment::table;
verus! {
broadcast use crate::prelude::group_felt;
//@verbatim crates/stark/src/oods.rs struct OodsEvaluationInfo
//@verbatim crates/stark/src/oods.rs enum OodsVerifyError
//@from_variants crates/stark/src/oods.rs OodsVerifyError

/// ORACLE (C01): the claimed composition value  oods[M] + z * oods[M+1]  equals the composition polynomial computed
/// from the mask values oods[0..M]
pub open spec fn oods_consistent<Layout: LayoutTrait>(oods: Seq<nat>, ie: &Layout::InteractionElements, pi: &PublicInput,
        coeffs: Seq<nat>, z: nat, tds: nat, tg: nat) -> bool {
    let m = Layout::MASK_SIZE as int;
    Layout::composition_spec(ie, pi, oods.subrange(0, m), coeffs, z, tds, tg) == fadd(oods[m], fmul(oods[m + 1], z))
}

//@repo crates/stark/src/oods.rs fn verify_oods props=C01,C02
pub fn verify_oods<Layout: LayoutTrait>(
    oods: &[Felt],
    interaction_elements: &Layout::InteractionElements,
    public_input: &PublicInput,
    constraint_coefficients: &[Felt],
    oods_point: &Felt,
    trace_domain_size: &Felt,
    trace_generator: &Felt,
) -> (r: Result<(), OodsVerifyError>)
    requires
        constraint_coefficients@.len() == Layout::N_CONSTRAINTS, // [C16,C18:verify-oods-one-coefficient-per-constraint]
        Layout::composition_pre(public_input, trace_domain_size@), // [C18:verify-oods-after-public-input-validation]
    ensures
        r.is_ok() ==> oods@.len() == Layout::MASK_SIZE + Layout::CONSTRAINT_DEGREE, // [C01,C02,C18:oods-vector-has-exactly-MASK_SIZE+DEGREE-values]
        r.is_ok() ==> oods_consistent::<Layout>(fv(oods@), interaction_elements, public_input, fv(constraint_coefficients@), oods_point@, trace_domain_size@, trace_generator@), // [C01,C02:composition-from-trace-equals-claimed-composition-at-the-positions-DEEP-reads]
{
    proof { Layout::lemma_constants(); }
    // The out-of-domain values are the mask values followed by the composition polynomial values;
    // the DEEP evaluation reads them at exactly these positions.
    ensure!(
        oods.len() == Layout::MASK_SIZE + Layout::CONSTRAINT_DEGREE,
        OodsVerifyError::InvalidLength {
            expected: Layout::MASK_SIZE + Layout::CONSTRAINT_DEGREE,
            actual: oods.len()
        }
    );
    let composition_from_trace = Layout::eval_composition_polynomial(
        interaction_elements,
        public_input,
        &oods[0..oods.len() - 2],
        constraint_coefficients,
        oods_point,
        trace_domain_size,
        trace_generator,
    )?;
    proof { assert(fv(oods@.subrange(0, oods@.len() - 2)) =~= fv(oods@).subrange(0, Layout::MASK_SIZE as int)); }

    // TODO support degree > 2?
    let claimed_composition = oods[oods.len() - 2] + oods[oods.len() - 1] * oods_point;

    assure!(
        composition_from_trace == claimed_composition,
        OodsVerifyError::EvaluationInvalid {
            expected: claimed_composition,
            actual: composition_from_trace
        }
    )
}
//@end

/// row i of a table with n columns
pub open spec fn row(values: Seq<nat>, i: int, n: int) -> Seq<nat> { values.subrange(i * n, (i + 1) * n) }
/// the cells the DEEP evaluation of query i is computed from: original row ++ interaction row ++ composition row
pub open spec fn deep_row(orig: Seq<nat>, inter: Seq<nat>, comp: Seq<nat>, i: int, n1: int, n2: int, d: int) -> Seq<nat> {
    row(orig, i, n1) + row(inter, i, n2) + row(comp, i, d)
}

//@repo crates/stark/src/oods.rs fn eval_oods_boundary_poly_at_points props=C01,C02 rules=R2_enumerate_points
pub fn eval_oods_boundary_poly_at_points<Layout: LayoutTrait>(
    n_original_columns: usize,
    n_interaction_columns: usize,
    public_input: &PublicInput,
    eval_info: &OodsEvaluationInfo,
    points: &[Felt],
    decommitment: &trace::Decommitment,
    composition_decommitment: &table::types::Decommitment,
) -> (r: Vec<Felt>)
    requires
        Layout::params_known(public_input),
        n_original_columns == Layout::n_cols(public_input).0 && n_interaction_columns == Layout::n_cols(public_input).1, // [C01,C02:column-counts-are-the-layouts]
        n_original_columns <= 128 && n_interaction_columns <= 128 && points@.len() <= 0xffff_ffff, // [C18:deep-sizes-small]
        decommitment.original.values@.len() == points@.len() * n_original_columns,       // [C18:original-cells-count-checked-by-decommitment]
        decommitment.interaction.values@.len() == points@.len() * n_interaction_columns, // [C18:interaction-cells-count-checked-by-decommitment]
        composition_decommitment.values@.len() == points@.len() * Layout::CONSTRAINT_DEGREE, // [C18:composition-cells-count-checked-by-decommitment]
        eval_info.oods_values@.len() == Layout::MASK_SIZE + Layout::CONSTRAINT_DEGREE,             // [C01,C02:deep-uses-an-oods-vector-of-the-checked-length]
        eval_info.constraint_coefficients@.len() == Layout::MASK_SIZE + Layout::CONSTRAINT_DEGREE, // [C16:deep-one-coefficient-per-opening]
    ensures
        r@.len() == points@.len(), // [C01,C02,C07,C18:one-fri-input-value-per-query]
        forall|i: int| 0 <= i < points@.len() ==> (#[trigger] r@[i])@ == Layout::oods_poly_spec(public_input,
            deep_row(fv(decommitment.original.values@), fv(decommitment.interaction.values@), fv(composition_decommitment.values@), i,
                     n_original_columns as int, n_interaction_columns as int, Layout::CONSTRAINT_DEGREE as int),
            fv(eval_info.oods_values@), fv(eval_info.constraint_coefficients@), points@[i]@, eval_info.oods_point@, eval_info.trace_generator@), // [C01,C02:fri-input-is-DEEP-of-the-DECOMMITTED-cells-and-the-SAME-oods-vector]
{
    proof { Layout::lemma_constants(); }
    assert!(
        decommitment.original.values.len() == points.len() * n_original_columns,
        "Invalid value"
    );
    assert!(
        decommitment.interaction.values.len() == points.len() * n_interaction_columns,
        "Invalid value"
    );
    assert!(
        composition_decommitment.values.len() == points.len() * Layout::CONSTRAINT_DEGREE,
        "Invalid value"
    );

    let mut evaluations/*+*/: Vec<Felt>/*-*/ = Vec::with_capacity(points.len());

    for i in 0..points.len()
        invariant
            Layout::params_known(public_input), Layout::CONSTRAINT_DEGREE == 2,
            n_original_columns == Layout::n_cols(public_input).0 && n_interaction_columns == Layout::n_cols(public_input).1,
            n_original_columns <= 128 && n_interaction_columns <= 128 && points@.len() <= 0xffff_ffff,
            decommitment.original.values@.len() == points@.len() * n_original_columns,
            decommitment.interaction.values@.len() == points@.len() * n_interaction_columns,
            composition_decommitment.values@.len() == points@.len() * Layout::CONSTRAINT_DEGREE,
            eval_info.oods_values@.len() == Layout::MASK_SIZE + Layout::CONSTRAINT_DEGREE,
            eval_info.constraint_coefficients@.len() == Layout::MASK_SIZE + Layout::CONSTRAINT_DEGREE,
            evaluations@.len() == i,
            forall|j: int| 0 <= j < i ==> (#[trigger] evaluations@[j])@ == Layout::oods_poly_spec(public_input,
                deep_row(fv(decommitment.original.values@), fv(decommitment.interaction.values@), fv(composition_decommitment.values@), j,
                         n_original_columns as int, n_interaction_columns as int, Layout::CONSTRAINT_DEGREE as int),
                fv(eval_info.oods_values@), fv(eval_info.constraint_coefficients@), points@[j]@, eval_info.oods_point@, eval_info.trace_generator@),
    { let point = points[i];
        proof {
            let n = points@.len() as int;
            assert((i + 1) * n_original_columns <= n * n_original_columns) by(nonlinear_arith) requires i < n, n_original_columns >= 0;
            assert((i + 1) * n_interaction_columns <= n * n_interaction_columns) by(nonlinear_arith) requires i < n, n_interaction_columns >= 0;
            assert((i + 1) * 2 <= n * 2);
            assert(i * n_original_columns <= (i + 1) * n_original_columns) by(nonlinear_arith) requires n_original_columns >= 0, i >= 0;
            assert(i * n_interaction_columns <= (i + 1) * n_interaction_columns) by(nonlinear_arith) requires n_interaction_columns >= 0, i >= 0;
            assert(n * n_original_columns <= 0xffff_ffff * 128) by(nonlinear_arith) requires n <= 0xffff_ffff, n_original_columns <= 128, n >= 0, n_original_columns >= 0;
            assert(n * n_interaction_columns <= 0xffff_ffff * 128) by(nonlinear_arith) requires n <= 0xffff_ffff, n_interaction_columns <= 128, n >= 0, n_interaction_columns >= 0;
            assert((i + 1) * n_original_columns - i * n_original_columns == n_original_columns) by(nonlinear_arith);
            assert((i + 1) * n_interaction_columns - i * n_interaction_columns == n_interaction_columns) by(nonlinear_arith);
        }
        let mut column_values/*+*/: Vec<Felt>/*-*/ = Vec::with_capacity(
            n_original_columns + n_interaction_columns + Layout::CONSTRAINT_DEGREE,
        );

        column_values.extend_x(
            &decommitment.original.values[i * n_original_columns..(i + 1) * n_original_columns],
        );
        column_values.extend_x(
            &decommitment.interaction.values
                [i * n_interaction_columns..(i + 1) * n_interaction_columns],
        );
        column_values.extend_x(
            &composition_decommitment.values
                [i * Layout::CONSTRAINT_DEGREE..(i + 1) * Layout::CONSTRAINT_DEGREE],
        );
        proof {
            assert(fv(column_values@) =~= deep_row(fv(decommitment.original.values@), fv(decommitment.interaction.values@), fv(composition_decommitment.values@), i as int,
                     n_original_columns as int, n_interaction_columns as int, Layout::CONSTRAINT_DEGREE as int));
        }

        evaluations.push(Layout::eval_oods_polynomial(
            public_input,
            &column_values,
            &eval_info.oods_values,
            &eval_info.constraint_coefficients,
            &point,
            &eval_info.oods_point,
            &eval_info.trace_generator,
        ).unwrap());
    }

    evaluations
}
//@end
} // verus!
} // mod oods
