pub mod verify {
use vstd::prelude::*;
use crate::prelude::*;
use crate::hoist::*;
use crate::lemmas::*;
use crate::numth::*;
use crate::swiftness_air::{self, domains::StarkDomains, layout::{LayoutTrait, LayoutSpec}, public_memory::PublicInput};
use crate::swiftness_commitment::{self, table::decommit::{table_decommit, table_decommit_ok}};
use crate::swiftness_fri::{
    fri::{self, fri_verify, fri_verify_ok, fri_verify_pre},
    types,
};
use crate::swiftness_stark::{
    oods::{eval_oods_boundary_poly_at_points, OodsEvaluationInfo, deep_row},
    queries::{queries_to_points, query_point},
    types::{StarkCommitment, StarkWitness},
};
verus! {
broadcast use crate::prelude::group_felt;
//@verbatim crates/stark/src/verify.rs enum Error
//@from_variants crates/stark/src/verify.rs Error

/// interior precondition of stark_verify: established by config validation, stark_commit and generate_queries
pub open spec fn verify_pre<Layout: LayoutTrait>(n1: usize, n2: usize, pi: &PublicInput, queries: Seq<Felt>,
        c: &StarkCommitment<Layout::InteractionElements>, domains: &StarkDomains) -> bool {
    &&& Layout::params_known(pi)
    &&& n1 == Layout::n_cols(pi).0 && n2 == Layout::n_cols(pi).1 && 1 <= n1 <= 128 && 1 <= n2 <= 128
    &&& c.traces.original.config.n_columns@ == n1 && c.traces.interaction.config.n_columns@ == n2
    &&& c.composition.config.n_columns@ == Layout::CONSTRAINT_DEGREE
    &&& queries.len() <= 48
    &&& (forall|i: int| 0 <= i < queries.len() ==> (#[trigger] queries[i])@ < pow2(domains.log_eval_domain_size@))
    &&& domains.log_eval_domain_size@ <= 192 && domains.eval_generator@ == gen(domains.log_eval_domain_size@)
    &&& c.oods_values@.len() == Layout::MASK_SIZE + Layout::CONSTRAINT_DEGREE
    &&& c.interaction_after_oods@.len() == Layout::MASK_SIZE + Layout::CONSTRAINT_DEGREE
    // FRI commitment produced by fri_commit under a validated config
    &&& 2 <= c.fri.config.n_layers@ <= 15
    &&& c.fri.config.log_last_layer_degree_bound@ <= 15
    &&& c.fri.config.fri_step_sizes@.len() >= c.fri.config.n_layers@
    &&& (forall|k: int| 1 <= k < c.fri.config.n_layers@ ==> 1 <= (#[trigger] c.fri.config.fri_step_sizes@[k])@ <= 4)
    &&& c.fri.inner_layers@.len() >= c.fri.config.n_layers@ - 1
    &&& c.fri.eval_points@.len() >= c.fri.config.n_layers@ - 1
}

/// ORACLE (C01/C02/C07): what a successful decommitment phase means
pub open spec fn verify_ok<Layout: LayoutTrait>(n1: usize, n2: usize, pi: &PublicInput, queries: Seq<Felt>,
        c: &StarkCommitment<Layout::InteractionElements>, w: &StarkWitness, domains: &StarkDomains) -> bool {
    let k = domains.log_eval_domain_size@;
    // the values FRI is run on: DEEP combination of the decommitted rows with the committed oods vector
    let fri_values = Seq::new(queries.len(), |i: int| Layout::oods_poly_spec(pi,
            deep_row(fv(w.traces_decommitment.original.values@), fv(w.traces_decommitment.interaction.values@), fv(w.composition_decommitment.values@), i,
                     n1 as int, n2 as int, Layout::CONSTRAINT_DEGREE as int),
            fv(c.oods_values@), fv(c.interaction_after_oods@), query_point(queries[i]@, k, domains.eval_generator@), c.interaction_after_composition@, domains.trace_generator@));
    &&& k <= 64
    &&& table_decommit_ok(&c.traces.original, fv(queries), fv(w.traces_decommitment.original.values@), fv(w.traces_witness.original.vector.authentications@))
    &&& table_decommit_ok(&c.traces.interaction, fv(queries), fv(w.traces_decommitment.interaction.values@), fv(w.traces_witness.interaction.vector.authentications@))
    &&& table_decommit_ok(&c.composition, fv(queries), fv(w.composition_decommitment.values@), fv(w.composition_witness.vector.authentications@))
    &&& fri_verify_ok(queries, &c.fri, fri_values, Seq::new(queries.len(), |i: int| query_point(queries[i]@, k, domains.eval_generator@)),
                      &w.fri_witness, crate::swiftness_fri::group::fri_group_values())
}

/// the queried points are non-zero: 3 * w^j with w a generator
pub proof fn lemma_query_point_nonzero(q: nat, k: nat)
    requires k <= 192
    ensures query_point(q, k, gen(k)) != 0
{
    broadcast use crate::prelude::axiom_field_integral;
    lemma_gen_order(k);
    lemma_gen_nonzero(k);
    crate::swiftness_fri::layer::lemma_pow_nonzero(gen(k), crate::stdx::bitrev(q, k));
}
pub proof fn lemma_gen_nonzero(k: nat)
    requires k <= 192
    ensures 0 < gen(k) < P
{
    lemma_gen_order(k);
    lemma_pow_mod_is_pow(3, ((P - 1) as nat) / pow2(k));
    if gen(k) == 0 {
        lemma_zero_pow(pow2(k));
        lemma_pow2_pos(k);
    }
}
pub proof fn lemma_zero_pow(e: nat)
    requires e > 0
    ensures pow_mod(0, e) == 0
{
    assert(pow_mod(0, e) == (0 * pow_mod(0, (e - 1) as nat)) % P);
    vstd::arithmetic::div_mod::lemma_small_mod(0, P);
}

//@repo crates/stark/src/verify.rs fn stark_verify props=C01,C02,C07
pub fn stark_verify<Layout: LayoutTrait>(
    n_original_columns: usize,
    n_interaction_columns: usize,
    public_input: &PublicInput,
    queries: &[Felt],
    commitment: StarkCommitment<Layout::InteractionElements>,
    witness: &StarkWitness,
    stark_domains: &StarkDomains,
) -> (r: Result<(), Error>)
    requires
        verify_pre::<Layout>(n_original_columns, n_interaction_columns, public_input, queries@, &commitment, stark_domains), // [C18:stark-verify-after-validation-commit-and-query-generation]
    ensures
        r.is_ok() <==> verify_ok::<Layout>(n_original_columns, n_interaction_columns, public_input, queries@, &commitment, witness, stark_domains), // [C01,C02,C07,C18:decommitment-phase-ok-iff-all-three-tables-decommit-and-fri-accepts-the-DEEP-values-of-the-decommitted-cells]
{
    hide(fadd); hide(fsub); hide(fmul); hide(fdiv); hide(table_decommit_ok); hide(fri_verify_ok); hide(deep_row); hide(query_point);
    proof { Layout::lemma_constants(); }
    // First layer decommit.
    Layout::traces_decommit(
        queries,
        commitment.traces,
        witness.traces_decommitment.clone(),
        witness.traces_witness.clone(),
    )?;

    table_decommit(
        commitment.composition,
        queries,
        witness.composition_decommitment.clone(),
        witness.composition_witness.clone(),
    )?;

    proof {
        reveal(table_decommit_ok);
        let n = queries@.len();
        assert(witness.traces_decommitment.original.values@.len() == n * n_original_columns) by(nonlinear_arith)
            requires witness.traces_decommitment.original.values@.len() == n_original_columns * n;
        assert(witness.traces_decommitment.interaction.values@.len() == n * n_interaction_columns) by(nonlinear_arith)
            requires witness.traces_decommitment.interaction.values@.len() == n_interaction_columns * n;
        assert(witness.composition_decommitment.values@.len() == n * Layout::CONSTRAINT_DEGREE) by(nonlinear_arith)
            requires witness.composition_decommitment.values@.len() == Layout::CONSTRAINT_DEGREE * n;
    }
    // Compute query points.
    let points = queries_to_points(queries, stark_domains)?;
    proof {
        assert forall|i: int| 0 <= i < points@.len() implies (#[trigger] points@[i])@ != 0 by {
            lemma_query_point_nonzero(queries@[i]@, stark_domains.log_eval_domain_size@);
            assert(points@[i]@ == query_point(queries@[i]@, stark_domains.log_eval_domain_size@, stark_domains.eval_generator@));
        }
        assert(fv(points@) =~= Seq::new(queries@.len(), |i: int| query_point(queries@[i]@, stark_domains.log_eval_domain_size@, stark_domains.eval_generator@)));
        vstd::arithmetic::div_mod::lemma_small_mod(n_original_columns as nat, P);
        vstd::arithmetic::div_mod::lemma_small_mod(n_interaction_columns as nat, P);
    }

    // Evaluate the FRI input layer at query points.
    let eval_info = OodsEvaluationInfo {
        oods_values: commitment.oods_values,
        oods_point: commitment.interaction_after_composition,
        trace_generator: stark_domains.trace_generator,
        constraint_coefficients: commitment.interaction_after_oods,
    };
    let oods_poly_evals = eval_oods_boundary_poly_at_points::<Layout>(
        n_original_columns,
        n_interaction_columns,
        public_input,
        &eval_info,
        &points,
        &witness.traces_decommitment,
        &witness.composition_decommitment,
    );

    proof {
        let k = stark_domains.log_eval_domain_size@;
        let fri_values = Seq::new(queries@.len(), |i: int| Layout::oods_poly_spec(public_input,
            deep_row(fv(witness.traces_decommitment.original.values@), fv(witness.traces_decommitment.interaction.values@), fv(witness.composition_decommitment.values@), i,
                     n_original_columns as int, n_interaction_columns as int, Layout::CONSTRAINT_DEGREE as int),
            fv(commitment.oods_values@), fv(commitment.interaction_after_oods@), query_point(queries@[i]@, k, stark_domains.eval_generator@), commitment.interaction_after_composition@, stark_domains.trace_generator@));
        assert(fv(oods_poly_evals@) =~= fri_values);
    }
    // Decommit FRI.
    let fri_decommitment = types::Decommitment { values: oods_poly_evals, points };
    Ok(fri_verify(queries, commitment.fri, fri_decommitment, witness.fri_witness.clone())?)
}
//@end
} // verus!
} // mod verify
