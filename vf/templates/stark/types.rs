pub mod types {
use vstd::prelude::*;
use crate::prelude::*;
use crate::swiftness_air;
use crate::swiftness_commitment;
use crate::swiftness_fri;
use crate::swiftness_pow;
use super::config;
verus! {
//@verbatim crates/stark/src/types.rs struct StarkProof,StarkUnsentCommitment,StarkCommitment,StarkWitness
} // verus!
} // mod types
