pub mod fs_lemmas {
// C08: "every verifier challenge ... changes when any one of [the preceding messages] changes and is unaffected by later
// messages; challenges drawn without an intervening message are pairwise different".
// The functions under contract are proved to leave the transcript in the state given by the spec functions below (absorb
// chains in protocol order).  These lemmas read that off: under the idealisation that Poseidon is injective (the opt-in axioms
// of prelude/hash.rs, used ONLY here and named in the evidence), equal digests force equal messages, position by position.
use vstd::prelude::*;
use vstd::arithmetic::div_mod::*;
use crate::prelude::*;
use crate::hashes::*;
use crate::hoist::*;
use crate::swiftness_transcript::transcript::*;
use crate::swiftness_fri::fri::rounds_digest;
use super::commit::{d_traces, d_composition, d_oods, d_fri, d_pow};
use super::types::StarkUnsentCommitment;
verus! {
broadcast use crate::prelude::group_felt;

proof fn lemma_fadd1_inj(a: nat, b: nat)
    requires a < P, b < P, fadd(a, 1) == fadd(b, 1)
    ensures a == b
{
    if a + 1 < P { lemma_small_mod(a + 1, P); } else { assert(a + 1 == P); lemma_mod_self_0(P as int); }
    if b + 1 < P { lemma_small_mod(b + 1, P); } else { assert(b + 1 == P); lemma_mod_self_0(P as int); }
}
/// absorbing a field element: the new digest determines the old digest and the message
pub proof fn lemma_absorb1_inj(d1: nat, v1: nat, d2: nat, v2: nat)
    requires d1 < P, d2 < P, ts_absorb1(d1, v1) == ts_absorb1(d2, v2)
    ensures d1 == d2, v1 == v2
{
    broadcast use crate::hashes::axiom_poseidon_many_inj;
    let s = seq![fadd(d1, 1), v1]; let t = seq![fadd(d2, 1), v2];
    assert(poseidon_many(s) == poseidon_many(t));
    assert(s == t);
    assert(s[0] == t[0] && s[1] == t[1]);
    lemma_fadd1_inj(d1, d2);
}
/// absorbing a vector: the new digest determines the old digest and the whole vector (its length included)
pub proof fn lemma_absorb_vec_inj(d1: nat, v1: Seq<nat>, d2: nat, v2: Seq<nat>)
    requires d1 < P, d2 < P, ts_absorb_vec(d1, v1) == ts_absorb_vec(d2, v2)
    ensures d1 == d2, v1 == v2
{
    broadcast use crate::hashes::axiom_poseidon_many_inj;
    let s = seq![fadd(d1, 1)] + v1; let t = seq![fadd(d2, 1)] + v2;
    assert(poseidon_many(s) == poseidon_many(t));
    assert(s == t);
    assert(s[0] == t[0]);
    lemma_fadd1_inj(d1, d2);
    assert(v1 =~= s.subrange(1, s.len() as int));
    assert(v2 =~= t.subrange(1, t.len() as int));
}
/// a challenge determines the state it was drawn from
pub proof fn lemma_squeeze_inj(d1: nat, c1: nat, d2: nat, c2: nat)
    requires ts_squeeze(d1, c1) == ts_squeeze(d2, c2)
    ensures d1 == d2, c1 == c2   // [C08:lemma-a-challenge-determines-digest-and-counter]
{
    broadcast use crate::hashes::axiom_poseidon2_inj;
}
/// counter after k squeezes from c (k < P): c + k mod P -- consecutive challenges use different counters, hence differ
pub open spec fn ctr_after(c: nat, k: nat) -> nat { (c + k) % P }
pub proof fn lemma_consecutive_challenges_differ(d: nat, c: nat, i: nat, j: nat)
    requires c < P, i < j < P
    ensures ts_squeeze(d, ctr_after(c, i)) != ts_squeeze(d, ctr_after(c, j))   // [C08:lemma-challenges-drawn-without-an-intervening-message-are-pairwise-different]
{
    if ts_squeeze(d, ctr_after(c, i)) == ts_squeeze(d, ctr_after(c, j)) {
        lemma_squeeze_inj(d, ctr_after(c, i), d, ctr_after(c, j));
        // (c+i) % P == (c+j) % P with 0 < j - i < P is impossible
        lemma_mod_equivalence((c + i) as int, (c + j) as int, P as int);
        assert(((c + i) as int - (c + j) as int) % (P as int) == 0);
        let dlt = (j - i) as int;
        assert((c + i) as int - (c + j) as int == -dlt);
        lemma_mod_neg_neg_is_zero(dlt, P as int);
        assert(false);
    }
}
proof fn lemma_mod_neg_neg_is_zero(x: int, m: int)
    requires 0 < x < m, (-x) % m == 0
    ensures false
{
    lemma_fundamental_div_mod(-x, m);
    let q = (-x) / m;
    assert(-x == m * q);
    assert(false) by(nonlinear_arith) requires -x == m * q, 0 < x < m;
}
proof fn lemma_absorb1_range(d: nat, v: nat) ensures ts_absorb1(d, v) < P { broadcast use crate::hashes::axiom_poseidon_many_range; }
proof fn lemma_rounds_range(d: nat, roots: Seq<nat>, n: nat) requires d < P ensures rounds_digest(d, roots, n) < P decreases n {
    if n > 0 { lemma_absorb1_range(rounds_digest(d, roots, (n - 1) as nat), roots[n - 1]); }
}
/// the FRI round chain determines the starting digest and every absorbed root
pub proof fn lemma_rounds_inj(d1: nat, r1: Seq<nat>, d2: nat, r2: Seq<nat>, n: nat)
    requires d1 < P, d2 < P, n <= r1.len(), n <= r2.len(), rounds_digest(d1, r1, n) == rounds_digest(d2, r2, n)
    ensures d1 == d2, forall|i: int| 0 <= i < n ==> r1[i] == r2[i]
    decreases n
{
    if n > 0 {
        let m = (n - 1) as nat;
        lemma_rounds_range(d1, r1, m); lemma_rounds_range(d2, r2, m);
        lemma_absorb1_inj(rounds_digest(d1, r1, m), r1[n - 1], rounds_digest(d2, r2, m), r2[n - 1]);
        lemma_rounds_inj(d1, r1, d2, r2, m);
    }
}
/// THE COMMIT PHASE: the digest the query indices are drawn from determines EVERY prover message absorbed before it (trace
/// roots, composition root, every out-of-domain value and their number, every FRI root, every last-layer coefficient and
/// their number, the proof-of-work nonce) and the seed: two transcripts that differ in any of them differ in this digest.
pub proof fn lemma_commit_digest_binds_every_message(d1: nat, u1: &StarkUnsentCommitment, d2: nat, u2: &StarkUnsentCommitment, n_layers: nat)
    requires
        d1 < P, d2 < P, n_layers >= 1,
        u1.fri.inner_layers@.len() >= n_layers - 1, u2.fri.inner_layers@.len() >= n_layers - 1,
        d_pow(d1, u1, n_layers) == d_pow(d2, u2, n_layers),
    ensures
        d1 == d2,
        u1.traces.original@ == u2.traces.original@ && u1.traces.interaction@ == u2.traces.interaction@,
        u1.composition@ == u2.composition@,
        felts_view(u1.oods_values@) == felts_view(u2.oods_values@),
        forall|i: int| 0 <= i < n_layers - 1 ==> u1.fri.inner_layers@[i]@ == u2.fri.inner_layers@[i]@,
        felts_view(u1.fri.last_layer_coefficients@) == felts_view(u2.fri.last_layer_coefficients@),
        u1.proof_of_work.nonce == u2.proof_of_work.nonce, // [C08:lemma-the-query-digest-determines-every-commit-phase-message-and-the-seed]
{
    broadcast use crate::hashes::axiom_poseidon_many_range;
    let k = (n_layers - 1) as nat;
    let (o1, o2) = (d_oods(d1, u1), d_oods(d2, u2));
    let (r1, r2) = (fv(u1.fri.inner_layers@), fv(u2.fri.inner_layers@));
    lemma_rounds_range(o1, r1, k); lemma_rounds_range(o2, r2, k);
    // nonce
    lemma_absorb1_inj(d_fri(d1, u1, n_layers), u1.proof_of_work.nonce as nat, d_fri(d2, u2, n_layers), u2.proof_of_work.nonce as nat);
    // last layer coefficients, then the round chain
    lemma_absorb_vec_inj(rounds_digest(o1, r1, k), felts_view(u1.fri.last_layer_coefficients@), rounds_digest(o2, r2, k), felts_view(u2.fri.last_layer_coefficients@));
    lemma_rounds_inj(o1, r1, o2, r2, k);
    assert forall|i: int| 0 <= i < n_layers - 1 implies u1.fri.inner_layers@[i]@ == u2.fri.inner_layers@[i]@ by { assert(r1[i] == r2[i]); }
    // oods values, composition, traces
    lemma_absorb_vec_inj(d_composition(d1, u1), felts_view(u1.oods_values@), d_composition(d2, u2), felts_view(u2.oods_values@));
    lemma_absorb1_inj(d_traces(d1, u1), u1.composition@, d_traces(d2, u2), u2.composition@);
    lemma_absorb1_inj(ts_absorb1(d1, u1.traces.original@), u1.traces.interaction@, ts_absorb1(d2, u2.traces.original@), u2.traces.interaction@);
    lemma_absorb1_inj(d1, u1.traces.original@, d2, u2.traces.original@);
}
} // verus!
} // mod fs_lemmas
