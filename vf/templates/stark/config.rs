pub mod config {
use vstd::prelude::*;
use crate::prelude::*;
use crate::lemmas::*;
use crate::swiftness_commitment;
use crate::swiftness_commitment::vector;
use crate::swiftness_fri;
use crate::swiftness_fri::config::{fri_ok, steps_sum, steps_sum_mono};
use crate::swiftness_air;
use crate::swiftness_air::trace::config::{trace_ok, vec_cfg_ok};
use crate::swiftness_pow;
verus! {
broadcast use crate::prelude::group_felt;
//@verbatim crates/stark/src/config.rs struct StarkConfig
//@verbatim crates/stark/src/config.rs enum Error
//@from_variants crates/stark/src/config.rs Error
//@hexconst crates/stark/src/config.rs MAX_LOG_N_COSETS,MAX_N_QUERIES vis=

/// ORACLE for property C11, written from the statement; every number is read as a non-negative
/// integer (the `@` view is the canonical representative), never modulo the field.
pub open spec fn config_ok(c: &StarkConfig, sb: nat, c1: nat, c2: nat) -> bool {
    let lc = c.log_n_cosets@;
    let h = c.log_trace_domain_size@ + lc;
    let nvf = c.n_verifier_friendly_commitment_layers@;
    &&& 20 <= c.proof_of_work.n_bits <= 50
    &&& 1 <= lc <= 16
    &&& 1 <= c.n_queries@ <= 48
    &&& sb <= c.n_queries@ * lc + c.proof_of_work.n_bits as nat
    &&& trace_ok(&c.traces, h, nvf, c1, c2)
    &&& vec_cfg_ok(&c.composition.vector, h, nvf)
    &&& fri_ok(&c.fri, lc, nvf)
    &&& c.fri.log_input_size@ == h
}

impl StarkConfig {
//@repo crates/stark/src/config.rs fn StarkConfig::security_bits props=C01,C02,C11
    pub fn security_bits(&self) -> (r: Felt)
        ensures r@ == fadd(fmul(self.n_queries@, self.log_n_cosets@), self.proof_of_work.n_bits as nat), // [C11:security-bits-formula]
    {
        self.n_queries * self.log_n_cosets + Felt::from(self.proof_of_work.n_bits)
    }
//@end
//@repo crates/stark/src/config.rs fn StarkConfig::validate props=C01,C02,C09,C11
    pub fn validate(
        &self,
        security_bits: Felt,
        num_columns_first: Felt,
        num_columns_second: Felt,
    ) -> (r: Result<(), Error>)
        ensures
            r.is_ok() ==> 20 <= self.proof_of_work.n_bits <= 50,                   // [C01,C02,C09,C11,C18:ok=>pow-bits-in-20..=50]
            r.is_ok() ==> 1 <= self.log_n_cosets@ <= 16,                            // [C01,C02,C11,C18:ok=>blowup-exponent-in-1..=16]
            r.is_ok() ==> 1 <= self.n_queries@ <= 48,                               // [C01,C02,C11,C17,C18:ok=>query-count-in-1..=48]
            r.is_ok() ==> security_bits@ <= self.n_queries@ * self.log_n_cosets@ + self.proof_of_work.n_bits as nat, // [C01,C02,C11:ok=>security-level-reached-as-integers]
            r.is_ok() ==> trace_ok(&self.traces, self.log_trace_domain_size@ + self.log_n_cosets@, self.n_verifier_friendly_commitment_layers@, num_columns_first@, num_columns_second@), // [C01,C02,C11,C18:ok=>trace-commitments-columns-heights-friendly-count]
            r.is_ok() ==> vec_cfg_ok(&self.composition.vector, self.log_trace_domain_size@ + self.log_n_cosets@, self.n_verifier_friendly_commitment_layers@), // [C01,C02,C11:ok=>composition-commitment-height-friendly-count]
            r.is_ok() ==> fri_ok(&self.fri, self.log_n_cosets@, self.n_verifier_friendly_commitment_layers@), // [C01,C02,C11,C17,C18:ok=>fri-description-consistent]
            r.is_ok() ==> self.fri.log_input_size@ == self.log_trace_domain_size@ + self.log_n_cosets@, // [C01,C02,C11,C18:ok=>fri-input-size-is-eval-domain-as-integers]
            config_ok(self, security_bits@, num_columns_first@, num_columns_second@) ==> r.is_ok(), // [C11:every-consistent-config-accepted]
    {
        self.proof_of_work.validate()?;

        // Bound the blow-up exponent and the query count as integers, so that none of the
        // comparisons below (all done in the field) can be satisfied by wrapping around.
        ensure!(
            Felt::ONE <= self.log_n_cosets && self.log_n_cosets <= MAX_LOG_N_COSETS,
            Error::LogNCosetsOutOfBounds
        );
        ensure!(
            Felt::ONE <= self.n_queries && self.n_queries <= MAX_N_QUERIES,
            Error::NQueriesOutOfBounds
        );
        proof {
            assert(self.n_queries@ * self.log_n_cosets@ <= 48 * 16) by(nonlinear_arith)
                requires self.n_queries@ <= 48, self.log_n_cosets@ <= 16;
        }

        ensure!(security_bits <= self.security_bits(), Error::InsufficientSecurity);

        // Validate traces config.
        let log_eval_domain_size = self.log_trace_domain_size + self.log_n_cosets;
        self.traces.validate(
            log_eval_domain_size,
            self.n_verifier_friendly_commitment_layers,
            num_columns_first,
            num_columns_second,
        )?;

        // Validate composition config.
        self.composition
            .vector
            .validate(log_eval_domain_size, self.n_verifier_friendly_commitment_layers)?;

        // Validate Fri config.
        self.fri.validate(self.log_n_cosets, self.n_verifier_friendly_commitment_layers)?;
        proof { steps_sum_mono(self.fri.fri_step_sizes@, 1, self.fri.n_layers@ as int); }

        // The FRI input layer is the evaluation domain.
        ensure!(self.fri.log_input_size == log_eval_domain_size, Error::FriInputSizeMismatch);
        Ok(())
    }
//@end
}
} // verus!
} // mod config
