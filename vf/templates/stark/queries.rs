pub mod queries {
use vstd::prelude::*;
use vstd::arithmetic::div_mod::*;
use crate::prelude::*;
use crate::hashes::*;
use crate::stdx::*;
use crate::hoist::*;
use crate::lemmas::*;
use crate::numth::*;
use crate::swiftness_transcript::transcript::*;
use crate::swiftness_air::domains::*;
verus! {
broadcast use crate::prelude::group_felt;
//@hexconst crates/stark/src/queries.rs FIELD_GENERATOR,DIVISOR,MAX_DOMAIN_SIZE vis=
//@verbatim crates/stark/src/queries.rs enum Error

/// i-th raw sample: low 128 bits of the i-th squeeze, reduced modulo the bound
pub open spec fn raw_query(d: nat, c: nat, i: nat, bound: nat) -> nat {
    (ts_squeeze(d, (c + i) % P) % pow2(128)) % bound
}
pub open spec fn raw_queries(d: nat, c: nat, n: nat, bound: nat) -> Seq<nat> {
    Seq::new(n, |i: int| raw_query(d, c, i as nat, bound))
}

pub proof fn lemma_dedup(s: Seq<nat>)
    requires sorted_nat(s)
    ensures
        strictly_increasing(dedup_seq(s)),
        dedup_seq(s).len() <= s.len(),
        forall|x: nat| dedup_seq(s).contains(x) <==> s.contains(x),
        s.len() > 0 ==> dedup_seq(s).len() > 0 && dedup_seq(s)[0] == s[0],
    decreases s.len()
{
    if s.len() <= 1 {
    } else {
        let t = s.skip(1);
        assert(sorted_nat(t)) by {
            assert forall|i: int, j: int| 0 <= i <= j < t.len() implies t[i] <= t[j] by { assert(t[i] == s[i + 1] && t[j] == s[j + 1]); }
        }
        lemma_dedup(t);
        let dt = dedup_seq(t);
        assert(dt[0] == s[1]);
        assert forall|x: nat| s.contains(x) <==> (x == s[0] || t.contains(x)) by {
            if s.contains(x) {
                let k = choose|k: int| 0 <= k < s.len() && s[k] == x;
                if k > 0 { assert(t[k - 1] == x); }
            }
            if t.contains(x) {
                let k = choose|k: int| 0 <= k < t.len() && t[k] == x;
                assert(s[k + 1] == x);
            }
            assert(s[0] == s[0]);
        }
        if s[0] == s[1] {
            assert(dedup_seq(s) == dt);
            assert(t.contains(s[1])) by { assert(t[0] == s[1]); }
        } else {
            let r = seq![s[0]] + dt;
            assert(dedup_seq(s) == r);
            assert forall|x: nat| r.contains(x) <==> (x == s[0] || dt.contains(x)) by {
                if r.contains(x) {
                    let k = choose|k: int| 0 <= k < r.len() && r[k] == x;
                    if k > 0 { assert(dt[k - 1] == x); }
                }
                if dt.contains(x) {
                    let k = choose|k: int| 0 <= k < dt.len() && dt[k] == x;
                    assert(r[k + 1] == x);
                }
                assert(r[0] == s[0]);
            }
            // every element of dt is an element of t, hence >= s[1] > s[0]
            assert forall|i: int, j: int| 0 <= i < j < r.len() implies r[i] < r[j] by {
                if i == 0 {
                    assert(dt.contains(dt[j - 1]));
                    assert(t.contains(dt[j - 1]));
                    let k = choose|k: int| 0 <= k < t.len() && t[k] == dt[j - 1];
                    assert(s[k + 1] == dt[j - 1]);
                    assert(s[0] <= s[1] <= s[k + 1]);
                } else {
                    assert(r[i] == dt[i - 1] && r[j] == dt[j - 1]);
                }
            }
        }
    }
}

//@repo crates/stark/src/queries.rs fn generate_queries props=C01,C02,C08,C10 rules=R2_generate_queries
pub fn generate_queries(
    transcript: &mut Transcript,
    n_samples: Felt,
    query_upper_bound: Felt,
) -> (r: Vec<Felt>)
    requires
        n_samples@ <= 48,            // [C17:query-count-bounded-by-validated-config]
        query_upper_bound@ != 0,     // [C18:query-bound-nonzero]
    ensures
        strictly_increasing(fv(r@)),                                             // [C01,C02,C10:indices-strictly-increasing-no-repeats]
        forall|i: int| 0 <= i < r@.len() ==> (#[trigger] r@[i])@ < query_upper_bound@, // [C01,C02,C10,C18:indices-in-range]
        r@.len() <= n_samples@,                                                  // [C01,C02,C10,C18:at-most-n-queries]
        forall|x: nat| fv(r@).contains(x) <==> raw_queries(old(transcript).digest@, old(transcript).counter@, n_samples@, query_upper_bound@).contains(x), // [C01,C02,C10:index-set-is-the-sampled-set-deterministic]
        final(transcript).digest@ == old(transcript).digest@,                    // [C01,C02,C08:queries-do-not-absorb]
        final(transcript).counter@ == (old(transcript).counter@ + n_samples@) % P, // [C01,C02,C08:queries-consume-exactly-n-squeezes]
{
    let n: u128 = n_samples.to_biguint().try_into().unwrap();
    let ghost d0 = transcript.digest@;
    let ghost c0 = transcript.counter@;
    proof { assert(pow2(128) == 0x100000000000000000000000000000000nat) by(compute_only); }
    let mut samples: Vec<Felt> = { let mut v__/*+*/: Vec<Felt>/*-*/ = Vec::new(); for i__ in 0..n
        invariant
            n as nat == n_samples@, n <= 48,
            query_upper_bound@ != 0,
            transcript.digest@ == d0,
            transcript.counter@ == (c0 + i__ as nat) % P,
            v__@.len() == i__ as nat,
            forall|j: int| 0 <= j < v__@.len() ==> (#[trigger] v__@[j])@ == raw_query(d0, c0, j as nat, query_upper_bound@),
            pow2(128) == 0x100000000000000000000000000000000nat,
    { v__.push({
            let res = transcript.random_felt_to_prover();
            let (_, low) = res.div_rem(&NonZeroFelt::from_felt_unchecked(DIVISOR));
            let (_, sample) = low.div_rem(&NonZeroFelt::try_from(query_upper_bound).unwrap());
            sample
        }); } v__ };
    proof {
        let raw = raw_queries(d0, c0, n_samples@, query_upper_bound@);
        assert(fv(samples@) =~= raw);
    }
    let ghost s0 = fv(samples@);

    samples.sort_x();
    let ghost s1 = fv(samples@);
    // The verifier works with the set of sampled indices: a repeated index is queried once.
    samples.dedup_x();
    proof {
        lemma_dedup(s1);
        let s2 = fv(samples@);
        assert forall|i: int| 0 <= i < samples@.len() implies (#[trigger] samples@[i])@ < query_upper_bound@ by {
            assert(s2[i] == samples@[i]@);
            assert(s2.contains(s2[i]));
            assert(s0.contains(s2[i]));
            let k = choose|k: int| 0 <= k < s0.len() && s0[k] == s2[i];
            assert(s0[k] == raw_query(d0, c0, k as nat, query_upper_bound@));
            lemma_mod_bound((ts_squeeze(d0, (c0 + k as nat) % P) % pow2(128)) as int, query_upper_bound@ as int);
        }
    }
    samples
}
//@end

/// the point queried for index q in a domain of size 2^k with generator w:  3 * w^bitreverse_k(q)
pub open spec fn query_point(q: nat, k: nat, w: nat) -> nat { fmul(3, pow_mod(w, bitrev(q, k))) }

pub proof fn lemma_bitrev_shift(q: nat, k: nat, m: nat)
    ensures bitrev(q * pow2(m), k + m) == bitrev(q, k)
    decreases m
{
    if m == 0 {
        assert(pow2(0) == 1);
        assert(q * pow2(0) == q) by(nonlinear_arith) requires pow2(0) == 1;
    } else {
        let x = q * pow2(m);
        assert(pow2(m) == 2 * pow2((m - 1) as nat));
        assert(x == 2 * (q * pow2((m - 1) as nat))) by(nonlinear_arith) requires x == q * pow2(m), pow2(m) == 2 * pow2((m - 1) as nat);
        assert(x % 2 == 0 && x / 2 == q * pow2((m - 1) as nat));
        lemma_bitrev_shift(q, k, (m - 1) as nat);
        assert(bitrev(x, k + m) == (x % 2) * pow2((k + m - 1) as nat) + bitrev(x / 2, (k + m - 1) as nat));
        assert((k + m - 1) as nat == k + (m - 1) as nat);
    }
}

//@repo crates/stark/src/queries.rs fn queries_to_points props=C01,C02,C10
pub fn queries_to_points(
    queries: &[Felt],
    stark_domains: &StarkDomains,
) -> (r: Result<Vec<Felt>, Error>)
    ensures
        r.is_ok() ==> stark_domains.log_eval_domain_size@ <= 64, // [C01,C02,C10,C18:points-only-for-domains-up-to-2^64]
        r.is_ok() ==> r->Ok_0@.len() == queries@.len(),         // [C01,C02,C10,C18:one-point-per-query]
        r.is_ok() ==> forall|i: int| 0 <= i < queries@.len() && queries@[i]@ < pow2(stark_domains.log_eval_domain_size@)
            ==> (#[trigger] r->Ok_0@[i])@ == query_point(queries@[i]@, stark_domains.log_eval_domain_size@, stark_domains.eval_generator@), // [C01,C02,C10:index-i-maps-to-3*w^bitreverse(i)]
        (stark_domains.log_eval_domain_size@ <= 64 && forall|i: int| 0 <= i < queries@.len() ==> (#[trigger] queries@[i])@ < pow2(stark_domains.log_eval_domain_size@))
            ==> r.is_ok(), // [C10:in-range-queries-always-map]
{
    let mut points = Vec::<Felt>::new();

    // Evaluation domains of size greater than 2**64 are not supported
    ensure!((stark_domains.log_eval_domain_size) <= MAX_DOMAIN_SIZE, Error::DomainTooLarge);

    // A 'log_eval_domain_size' bits index can be bit reversed using bit_reverse_u64 if it is
    // multiplied by 2**(64 - log_eval_domain_size) first.
    let shift = Felt::TWO.pow_felt(&(MAX_DOMAIN_SIZE - stark_domains.log_eval_domain_size));
    let ghost k = stark_domains.log_eval_domain_size@;
    let ghost m = (64 - k) as nat;
    proof {
        lemma_small_mod(m, P);
        lemma_pow_mod_two(m);
        lemma_pow2_add(k, m);
        lemma_pow2_251_lt_p();
        assert(pow2(64) == 0x10000000000000000nat) by(compute_only);
    }

    for query in /*+*/it: /*-*/queries
        invariant
            k == stark_domains.log_eval_domain_size@, k <= 64, m == 64 - k,
            shift@ == pow2(m), pow2(k) * pow2(m) == pow2(64), pow2(64) == 0x10000000000000000nat, pow2(64) < P,
            points@.len() == it.index@,
            forall|i: int| 0 <= i < it.index@ && queries@[i]@ < pow2(k) ==> (#[trigger] points@[i])@ == query_point(queries@[i]@, k, stark_domains.eval_generator@),
    {
        proof {
            assert(*query == queries@[it.index@]);
            let q = query@;
            if q < pow2(k) {
                assert(q * pow2(m) < pow2(k) * pow2(m)) by(nonlinear_arith) requires q < pow2(k), pow2(m) > 0;
                lemma_small_mod(q * pow2(m), P);
                lemma_bitrev_shift(q, k, m);
            }
            lemma_pow2_pos(m);
        }
        let index: u64 =
            (query * shift).to_bigint().try_into().map_err(|_e| /*+*/-> (o: Error) ensures o == Error::QueryOutOfRange {/*-*/ Error::QueryOutOfRange /*+*/}/*-*/)?;
        points.push(FIELD_GENERATOR * stark_domains.eval_generator.pow(index.reverse_bits()))
    }
    Ok(points)
}
//@end
} // verus!
} // mod queries
