pub mod types {
use vstd::prelude::*;
use crate::prelude::*;
use crate::lemmas::*;
verus! {
broadcast use crate::prelude::group_felt;
//@verbatim crates/air/src/types.rs struct SegmentInfo,AddrValue,Page,ContinuousPageHeader
} // verus!
} // mod types
