pub mod types {
use vstd::prelude::*;
use core::ops::Deref;
use crate::prelude::*;
use crate::hoist::*;
use crate::lemmas::*;
verus! {
broadcast use crate::prelude::group_felt;
//@verbatim crates/air/src/types.rs struct SegmentInfo,AddrValue,Page,ContinuousPageHeader

//@repo crates/air/src/types.rs impl Deref@Page
impl Deref for Page {
    type Target = Vec<AddrValue>;

    fn deref(&self) -> (r: &Self::Target)
        ensures r == &self.0,
    {
        &self.0
    }
}
//@end

/// SPEC (C15): product over the page cells of (z - (address + alpha * value))
pub open spec fn page_product(cells: Seq<AddrValue>, z: nat, alpha: nat, n: nat) -> nat decreases n {
    if n == 0 { 1 } else { fmul(page_product(cells, z, alpha, (n - 1) as nat), fsub(z, fadd(cells[n - 1].address@, fmul(alpha, cells[n - 1].value@)))) }
}

impl Page {
//@repo crates/air/src/types.rs fn Page::get_product props=C15 rules=R4_loop_break_value
    pub fn get_product(&self, z: Felt, alpha: Felt) -> (r: Felt)
        ensures r@ == page_product(self.0@, z@, alpha@, self.0@.len()), // [C15:page-product-is-the-product-of-(z-(addr+alpha*value))-over-all-cells]
    {
        let mut res = Felt::ONE;
        let mut i = 0;
        { while !(
            i == self.len()
            )
            invariant
                i <= self.0@.len(),
                res@ == page_product(self.0@, z@, alpha@, i as nat),
            decreases self.0@.len() - i, // [C17:page-product-linear-in-page-length]
        {
            let current = &self[i];
            res *= z - (current.address + alpha * current.value);
            i += 1;
        }
        res
        }
    }
//@end
}
} // verus!
} // mod types
