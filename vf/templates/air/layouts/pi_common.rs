// shared by the generated *_mid.rs layout templates (same text as in recursive.rs)
/// builtin usage (stop - begin, field difference as in the reference verifier) is a whole number of instances
/// of `cells` cells and does not exceed floor(trace_length / row_ratio)
pub open spec fn builtin_ok(pi: &PublicInput, seg: int, cells: nat, trace_length: nat, row_ratio: nat) -> bool {
    let uses = fsub(pi.segments@[seg].stop_ptr@, pi.segments@[seg].begin_addr@);
    uses % cells == 0 && uses / cells <= trace_length / row_ratio
}

/// what the code checks for one builtin: field quotient of the usage <= integer quotient of the trace length
pub open spec fn builtin_checked(pi: &PublicInput, seg: int, cells: nat, trace_length: nat, row_ratio: nat) -> bool {
    fdiv(fsub(pi.segments@[seg].stop_ptr@, pi.segments@[seg].begin_addr@), cells) <= trace_length / row_ratio
}

/// the code-level check IS the memory-layout rule, for every trace length: the field quotient of the usage is at most
/// floor(trace_length / row_ratio) exactly when the usage is a whole number of instances not exceeding that capacity
pub proof fn lemma_builtin_checked(pi: &PublicInput, seg: int, cells: nat, t: nat, row_ratio: nat)
    requires
        t <= pow2(84), 1 <= cells <= 16, 1 <= row_ratio, 0 <= seg < pi.segments@.len(),
    ensures
        builtin_checked(pi, seg, cells, t, row_ratio) <==> builtin_ok(pi, seg, cells, t, row_ratio),
{
    broadcast use crate::prelude::group_felt;
    let uses = fsub(pi.segments@[seg].stop_ptr@, pi.segments@[seg].begin_addr@);
    let copies = t / row_ratio;
    vstd::arithmetic::div_mod::lemma_div_is_ordered_by_denominator(t as int, 1, row_ratio as int);
    vstd::arithmetic::div_mod::lemma_div_basics(t as int);
    assert(copies <= t);
    assert(pow2(84) * 16 < P) by(compute_only);
    lemma_fdiv_back(uses, cells);
    let qf = fdiv(uses, cells);
    if qf <= copies {
        // qf * cells < P, so uses == qf * cells exactly
        assert(qf * cells <= pow2(84) * 16) by(nonlinear_arith) requires qf <= copies, copies <= pow2(84), cells <= 16;
        vstd::arithmetic::div_mod::lemma_small_mod(qf * cells, P);
        assert(uses == qf * cells);
        vstd::arithmetic::div_mod::lemma_fundamental_div_mod_converse(uses as int, cells as int, qf as int, 0);
    }
    if uses % cells == 0 && uses / cells <= copies {
        let q = uses / cells;
        vstd::arithmetic::div_mod::lemma_fundamental_div_mod(uses as int, cells as int);
        assert(uses == cells * q);
        lemma_fdiv_exact(uses, cells, q);
    }
}



/// (same statement for trace lengths up to 2^160: the dynamic layout multiplies the step count by a proof-supplied factor)
/// the code-level check IS the memory-layout rule, for every trace length: the field quotient of the usage is at most
/// floor(trace_length / row_ratio) exactly when the usage is a whole number of instances not exceeding that capacity
pub proof fn lemma_builtin_checked_wide(pi: &PublicInput, seg: int, cells: nat, t: nat, row_ratio: nat)
    requires
        t <= pow2(160), 1 <= cells <= 16, 1 <= row_ratio, 0 <= seg < pi.segments@.len(),
    ensures
        builtin_checked(pi, seg, cells, t, row_ratio) <==> builtin_ok(pi, seg, cells, t, row_ratio),
{
    broadcast use crate::prelude::group_felt;
    let uses = fsub(pi.segments@[seg].stop_ptr@, pi.segments@[seg].begin_addr@);
    let copies = t / row_ratio;
    vstd::arithmetic::div_mod::lemma_div_is_ordered_by_denominator(t as int, 1, row_ratio as int);
    vstd::arithmetic::div_mod::lemma_div_basics(t as int);
    assert(copies <= t);
    assert(pow2(160) * 16 < P) by(compute_only);
    lemma_fdiv_back(uses, cells);
    let qf = fdiv(uses, cells);
    if qf <= copies {
        // qf * cells < P, so uses == qf * cells exactly
        assert(qf * cells <= pow2(160) * 16) by(nonlinear_arith) requires qf <= copies, copies <= pow2(160), cells <= 16;
        vstd::arithmetic::div_mod::lemma_small_mod(qf * cells, P);
        assert(uses == qf * cells);
        vstd::arithmetic::div_mod::lemma_fundamental_div_mod_converse(uses as int, cells as int, qf as int, 0);
    }
    if uses % cells == 0 && uses / cells <= copies {
        let q = uses / cells;
        vstd::arithmetic::div_mod::lemma_fundamental_div_mod(uses as int, cells as int);
        assert(uses == cells * q);
        lemma_fdiv_exact(uses, cells, q);
    }
}



/// C14 (address based): the first n_prog main-page cells are at addresses initial_pc, initial_pc+1, ... and there are enough of them
pub open spec fn program_cells_addressed(pi: &PublicInput) -> bool {
    let n_prog = fsub(fsub(pi.segments@[1].begin_addr@, 2), 1);
    n_prog <= pi.main_page.0@.len() && forall|i: int| 0 <= i < n_prog ==> (#[trigger] pi.main_page.0@[i]).address@ == pi.segments@[0].begin_addr@ + i
}
/// C14 (address based): the last output_len main-page cells are at addresses output_start, output_start+1, ...
pub open spec fn output_cells_addressed(pi: &PublicInput) -> bool {
    let n_out = fsub(pi.segments@[2].stop_ptr@, pi.segments@[2].begin_addr@);
    n_out <= pi.main_page.0@.len() && forall|j: int| 0 <= j < n_out ==> (#[trigger] pi.main_page.0@[pi.main_page.0@.len() - n_out + j]).address@ == pi.segments@[2].begin_addr@ + j
}


/// [ASSUMED A-fs-nonzero] the two denominators of the public-memory ratio are evaluations at Fiat-Shamir challenges; they
/// vanish with probability <= (number of public cells + 1) / P.  Not provable: assumed, listed in the evidence.
#[verifier::external_body]
pub proof fn assumed_fs_nonzero(pi: &PublicInput, z: nat, alpha: nat, size: nat)
    ensures
        fmul(crate::swiftness_air::types::page_product(pi.main_page.0@, z, alpha, pi.main_page.0@.len()), crate::swiftness_air::public_memory::headers_product(pi.continuous_page_headers@, pi.continuous_page_headers@.len())) != 0,
        pow_mod(fsub(z, fadd(pi.padding_addr@, fmul(alpha, pi.padding_value@))), fsub(size, fadd(pi.main_page.0@.len() as nat % P, crate::swiftness_air::public_memory::headers_total(pi.continuous_page_headers@, pi.continuous_page_headers@.len())))) != 0,
{}
