pub mod diluted {
use vstd::prelude::*;
use vstd::arithmetic::div_mod::*;
use crate::prelude::*;
use crate::lemmas::*;
use crate::swiftness_air::consts::{FELT_0, FELT_1, FELT_2};
verus! {
broadcast use crate::prelude::group_felt;

/// state of the doubling computation after i steps: (p, q, x, diff_x)
pub struct Dil { pub p: nat, pub q: nat, pub x: nat, pub dx: nat }
pub open spec fn dil_step(s: Dil, z: nat, mult: nat) -> Dil {
    let x = fadd(s.x, s.dx);
    let x_p = fmul(x, s.p);
    let y = fadd(s.p, fmul(z, x_p));
    Dil { p: fmul(s.p, y), q: fadd(fadd(fmul(s.q, y), fmul(x, x_p)), s.q), x: x, dx: fmul(s.dx, mult) }
}
pub open spec fn dil_state(i: nat, spacing: nat, z: nat) -> Dil decreases i {
    if i == 0 { Dil { p: fadd(z, 1), q: 1, x: 1, dx: fsub(pow_mod(2, spacing), 2) } }
    else { dil_step(dil_state((i - 1) as nat, spacing, z), z, pow_mod(2, spacing)) }
}
/// value computed by get_diluted_product: p_{n-1} + q_{n-1} * alpha  (n_bits - 1 doubling steps)
pub open spec fn diluted_spec(n_bits: nat, spacing: nat, z: nat, alpha: nat) -> nat {
    let s = dil_state((n_bits - 1) as nat, spacing, z);
    fadd(s.p, fmul(s.q, alpha))
}

//@repo crates/air/src/diluted.rs fn get_diluted_product props=C15 rules=R4_loop_break_value
pub fn get_diluted_product(n_bits: Felt, spacing: Felt, z: Felt, alpha: Felt) -> (r: Felt)
    requires
        1 <= n_bits@ <= 64, // [C17:diluted-loop-bounded-by-layout-constant]
    ensures
        r@ == diluted_spec(n_bits@, spacing@, z@, alpha@), // [C15:diluted-product-is-the-doubling-recurrence-after-n_bits-1-steps]
        r@ == crate::swiftness_air::diluted_lemma::diluted_recurrence_value(n_bits@, spacing@, z@, alpha@), // [C15:diluted-product-equals-r_(2^n_bits)-of-the-defining-recurrence-over-all-diluted-values]
{
    proof { crate::swiftness_air::diluted_lemma::lemma_diluted_is_recurrence(n_bits@, spacing@, z@, alpha@); }
    let diff_multiplier = FELT_2.pow_felt(&spacing);
    let mut diff_x: Felt = diff_multiplier - FELT_2;
    let mut x: Felt = FELT_1;
    let mut p: Felt = z + FELT_1;
    let mut q: Felt = FELT_1;
    let mut i = FELT_0;
    let ghost mut k: nat = 0;
    proof { lemma_small_mod((n_bits@ - 1) as nat, P); lemma_mod_multiples_vanish(1, (n_bits@ - 1) as int, P as int); }
    { while !(
        i == n_bits - FELT_1
        )
        invariant
            1 <= n_bits@ <= 64, i@ == k, k <= n_bits@ - 1, fsub(n_bits@, 1) == n_bits@ - 1,
            diff_multiplier@ == pow_mod(2, spacing@),
            dil_state(k, spacing@, z@) == (Dil { p: p@, q: q@, x: x@, dx: diff_x@ }),
        decreases n_bits@ - 1 - k, // [C17:diluted-loop-runs-n_bits-1-times]
    {
        x += diff_x;
        diff_x *= diff_multiplier;
        let x_p = x * p;
        let y = p + z * x_p;
        q = q * y + x * x_p + q;
        p *= y;
        i += FELT_1;
        proof { k = k + 1; lemma_small_mod(k, P); }
    }
    p + q * alpha
    }
}
//@end
} // verus!
} // mod diluted
