pub mod public_memory {
use vstd::prelude::*;
use crate::prelude::*;
use crate::hashes::*;
use crate::hoist::*;
use crate::lemmas::*;
use crate::swiftness_air::{
    dynamic::DynamicParams,
    types::{ContinuousPageHeader, Page, SegmentInfo},
};
verus! {
broadcast use crate::prelude::group_felt;
//@hexconst crates/air/src/public_memory.rs MAX_LOG_N_STEPS,MAX_RANGE_CHECK,MAX_ADDRESS,INITIAL_PC
//@verbatim crates/air/src/public_memory.rs struct PublicInput
} // verus!
} // mod public_memory
