pub mod public_memory {
use vstd::prelude::*;
use vstd::arithmetic::div_mod::*;
use crate::prelude::*;
use crate::hashes::*;
use crate::hoist::*;
use crate::lemmas::*;
use crate::swiftness_air::{
    consts::{FELT_0, FELT_1, FELT_2},
    dynamic::DynamicParams,
    types::{ContinuousPageHeader, Page, SegmentInfo, AddrValue, page_product},
};
verus! {
broadcast use crate::prelude::group_felt;
//@hexconst crates/air/src/public_memory.rs MAX_LOG_N_STEPS,MAX_RANGE_CHECK,MAX_ADDRESS,INITIAL_PC
//@verbatim crates/air/src/public_memory.rs struct PublicInput

// ---------------------------------------------------------------------------------------------
// SPEC (property C13): the sequence that is hashed into the transcript seed
/// pedersen chain over the main page: h_0 = 0, h_{i+1} = pedersen(pedersen(h_i, address_i), value_i)
pub open spec fn page_chain(cells: Seq<AddrValue>, n: nat) -> nat decreases n {
    if n == 0 { 0 } else { pedersen(pedersen(page_chain(cells, (n - 1) as nat), cells[n - 1].address@), cells[n - 1].value@) }
}
pub open spec fn main_page_hash_spec(cells: Seq<AddrValue>) -> nat { pedersen(page_chain(cells, cells.len()), fmul(2, cells.len() as nat % P)) }
pub open spec fn segments_flat(s: Seq<SegmentInfo>) -> Seq<nat> decreases s.len() {
    if s.len() == 0 { Seq::<nat>::empty() } else { segments_flat(s.drop_last()) + seq![s.last().begin_addr@, s.last().stop_ptr@] }
}
pub open spec fn headers_flat(s: Seq<ContinuousPageHeader>) -> Seq<nat> decreases s.len() {
    if s.len() == 0 { Seq::<nat>::empty() } else { headers_flat(s.drop_last()) + seq![s.last().start_address@, s.last().size@, s.last().hash@] }
}
/// dynamic parameters in field order (see dynamic.rs; the conversion itself is assumed in this unit: A-iter)
pub use crate::swiftness_air::dynamic::dynamic_params_seq;
pub open spec fn dyn_part(pi: &PublicInput) -> Seq<nat> {
    match pi.dynamic_params { Some(dp) => dynamic_params_seq(&dp), None => Seq::<nat>::empty() }
}
//@iffeature stone5
pub open spec fn hash_head(pi: &PublicInput, nvf: nat) -> Seq<nat> { seq![pi.log_n_steps@, pi.range_check_min@, pi.range_check_max@, pi.layout@] }
//@iffeature stone6
pub open spec fn hash_head(pi: &PublicInput, nvf: nat) -> Seq<nat> { seq![nvf, pi.log_n_steps@, pi.range_check_min@, pi.range_check_max@, pi.layout@] }
pub open spec fn hash_data_spec(pi: &PublicInput, nvf: nat) -> Seq<nat> {
    hash_head(pi, nvf) + dyn_part(pi) + segments_flat(pi.segments@)
        + seq![pi.padding_addr@, pi.padding_value@, (pi.continuous_page_headers@.len() + 1) as nat % P, pi.main_page.0@.len() as nat % P, main_page_hash_spec(pi.main_page.0@)]
        + headers_flat(pi.continuous_page_headers@)
}
/// the transcript seed
pub open spec fn public_input_hash(pi: &PublicInput, nvf: nat) -> nat { poseidon_many(hash_data_spec(pi, nvf)) }

// ---- hoisted iterator statements of get_hash (ASSUMED std semantics, A-iter) ----------------------
#[verifier::external_body]
fn hoisted_extend_dynamic_params(hash_data: &mut Vec<Felt>, dynamic_params: &DynamicParams)
    ensures fv(final(hash_data)@) == fv(old(hash_data)@) + dynamic_params_seq(dynamic_params),
{ unimplemented!() }
/// flattening lemmas: the concatenation of the per-element chunks is the flat sequence of the specification
pub proof fn lemma_segments_chunks(s: Seq<SegmentInfo>, chunks: Seq<Vec<Felt>>)
    requires chunks.len() == s.len(), forall|i: int| 0 <= i < s.len() ==> (#[trigger] chunks[i])@ == seq![s[i].begin_addr, s[i].stop_ptr]
    ensures fv(concat_vecs(chunks)) == segments_flat(s)
    decreases s.len()
{
    if s.len() == 0 {
        assert(fv(concat_vecs(chunks)) =~= segments_flat(s));
    } else {
        lemma_segments_chunks(s.drop_last(), chunks.drop_last());
        assert(fv(concat_vecs(chunks)) =~= fv(concat_vecs(chunks.drop_last())) + fv(chunks.last()@));
        assert(fv(chunks.last()@) =~= seq![s.last().begin_addr@, s.last().stop_ptr@]);
    }
}
pub proof fn lemma_headers_chunks(s: Seq<ContinuousPageHeader>, chunks: Seq<Vec<Felt>>)
    requires chunks.len() == s.len(), forall|i: int| 0 <= i < s.len() ==> (#[trigger] chunks[i])@ == seq![s[i].start_address, s[i].size, s[i].hash]
    ensures fv(concat_vecs(chunks)) == headers_flat(s)
    decreases s.len()
{
    if s.len() == 0 {
        assert(fv(concat_vecs(chunks)) =~= headers_flat(s));
    } else {
        lemma_headers_chunks(s.drop_last(), chunks.drop_last());
        assert(fv(concat_vecs(chunks)) =~= fv(concat_vecs(chunks.drop_last())) + fv(chunks.last()@));
        assert(fv(chunks.last()@) =~= seq![s.last().start_address@, s.last().size@, s.last().hash@]);
    }
}

/// SPEC (C15)
pub open spec fn headers_product(h: Seq<ContinuousPageHeader>, n: nat) -> nat decreases n {
    if n == 0 { 1 } else { fmul(headers_product(h, (n - 1) as nat), h[n - 1].prod@) }
}
pub open spec fn headers_total(h: Seq<ContinuousPageHeader>, n: nat) -> nat decreases n {
    if n == 0 { 0 } else { fadd(headers_total(h, (n - 1) as nat), h[n - 1].size@) }
}
/// z^size / ( prod over all public cells * padding^(size - total) )
pub open spec fn memory_ratio_spec(pi: &PublicInput, z: nat, alpha: nat, size: nat) -> nat {
    let pages = fmul(page_product(pi.main_page.0@, z, alpha, pi.main_page.0@.len()), headers_product(pi.continuous_page_headers@, pi.continuous_page_headers@.len()));
    let total = fadd(pi.main_page.0@.len() as nat % P, headers_total(pi.continuous_page_headers@, pi.continuous_page_headers@.len()));
    let padded = fsub(z, fadd(pi.padding_addr@, fmul(alpha, pi.padding_value@)));
    fdiv(fdiv(pow_mod(z, size), pages), pow_mod(padded, fsub(size, total)))
}

impl PublicInput {
//@repo crates/air/src/public_memory.rs fn PublicInput::get_public_memory_product_ratio props=C15
    pub fn get_public_memory_product_ratio(
        &self,
        z: Felt,
        alpha: Felt,
        public_memory_column_size: Felt,
    ) -> (r: Felt)
        requires
            fadd(self.main_page.0@.len() as nat % P, headers_total(self.continuous_page_headers@, self.continuous_page_headers@.len())) <= public_memory_column_size@, // [C18:public-memory-fits-the-column-else-assert-panics]
            fmul(page_product(self.main_page.0@, z@, alpha@, self.main_page.0@.len()), headers_product(self.continuous_page_headers@, self.continuous_page_headers@.len())) != 0, // [C18:pages-product-nonzero-else-division-panics]
            pow_mod(fsub(z@, fadd(self.padding_addr@, fmul(alpha@, self.padding_value@))), fsub(public_memory_column_size@, fadd(self.main_page.0@.len() as nat % P, headers_total(self.continuous_page_headers@, self.continuous_page_headers@.len())))) != 0, // [C18:padding-power-nonzero-else-division-panics]
        ensures
            r@ == memory_ratio_spec(self, z@, alpha@, public_memory_column_size@), // [C15:memory-ratio-is-z^size-over-pages-product-and-padding-power]
    {
        let (pages_product, total_length) = self.get_public_memory_product(z, alpha);

        // Pad and divide
        let numerator = z.pow_felt(&public_memory_column_size);
        let padded = z - (self.padding_addr + alpha * self.padding_value);

        assert!(total_length <= public_memory_column_size);
        let denominator_pad = padded.pow_felt(&(public_memory_column_size - total_length));

        numerator
            .field_div(&NonZeroFelt::from_felt_unchecked(pages_product))
            .field_div(&NonZeroFelt::from_felt_unchecked(denominator_pad))
    }
//@end
//@repo crates/air/src/public_memory.rs fn PublicInput::get_public_memory_product props=C15
    pub fn get_public_memory_product(&self, z: Felt, alpha: Felt) -> (r: (Felt, Felt))
        ensures
            r.0@ == fmul(page_product(self.main_page.0@, z@, alpha@, self.main_page.0@.len()), headers_product(self.continuous_page_headers@, self.continuous_page_headers@.len())), // [C15:memory-product-is-main-page-product-times-page-products]
            r.1@ == fadd(self.main_page.0@.len() as nat % P, headers_total(self.continuous_page_headers@, self.continuous_page_headers@.len())), // [C15:memory-total-length]
    {
        let main_page_prod = self.main_page.get_product(z, alpha);

        let (continuous_pages_prod, continuous_pages_total_length) =
            get_continuous_pages_product(&self.continuous_page_headers);

        let prod = main_page_prod * continuous_pages_prod;
        let total_length = Felt::from(self.main_page.len()) + continuous_pages_total_length;

        proof { lemma_pow2_251_lt_p(); assert(pow2(64) == 0x10000000000000000nat) by(compute_only); lemma_small_mod(self.main_page.0@.len() as nat, P); }
        (prod, total_length)
    }
//@end
//@repo crates/air/src/public_memory.rs fn PublicInput::get_hash props=C01,C02,C13 rules=H_hash_dynamic_params,H_hash_segments,H_hash_headers
    pub fn get_hash(&self, n_verifier_friendly_commitment_layers: Felt) -> (r: Felt)
        requires
            self.continuous_page_headers@.len() < usize::MAX, // [C18:header-count+1-fits-usize]
        ensures
            r@ == public_input_hash(self, n_verifier_friendly_commitment_layers@), // [C13:seed-is-poseidon-of-all-listed-fields-in-order]
    {
        let mut main_page_hash = FELT_0;
        for memory in /*+*/it: /*-*/self.main_page.iter()
            invariant main_page_hash@ == page_chain(self.main_page.0@, it.index@ as nat),
        {
            assert(*memory == self.main_page.0@[it.index@]);
            main_page_hash = pedersen_hash(&main_page_hash, &memory.address);
            main_page_hash = pedersen_hash(&main_page_hash, &memory.value);
        }
        main_page_hash =
            pedersen_hash(&main_page_hash, &(FELT_2 * Felt::from(self.main_page.len())));
        proof {
            lemma_pow2_251_lt_p(); assert(pow2(64) == 0x10000000000000000nat) by(compute_only);
            lemma_small_mod(self.main_page.0@.len() as nat, P);
            lemma_small_mod((self.continuous_page_headers@.len() + 1) as nat, P);
        }

        let mut hash_data = {
            {
                vec![self.log_n_steps, self.range_check_min, self.range_check_max, self.layout]
            }
        };
        proof { assert(fv(hash_data@) =~= hash_head(self, n_verifier_friendly_commitment_layers@)); }

        if let Some(dynamic_params) = &self.dynamic_params {
            hoisted_extend_dynamic_params(&mut hash_data, dynamic_params);
        }
        proof { assert(fv(hash_data@) =~= hash_head(self, n_verifier_friendly_commitment_layers@) + dyn_part(self)); }

        // Segments.
        let ghost hd0 = hash_data@;
        crate::hoist::extend_concat(&mut hash_data, &/*+*/{ let seg_chunks = /*-*/crate::hoist::slice_map(&self.segments, |s/*+*/: &SegmentInfo/*-*/| /*+*/-> (o: Vec<Felt>) ensures o@ == seq![s.begin_addr, s.stop_ptr] {/*-*/ vec![s.begin_addr, s.stop_ptr] /*+*/}/*-*/)/*+*/;
            proof { lemma_segments_chunks(self.segments@, seg_chunks@); }
            seg_chunks }/*-*/);
        proof { assert(fv(hash_data@) =~= fv(hd0) + segments_flat(self.segments@)); }

        hash_data.push(self.padding_addr);
        hash_data.push(self.padding_value);
        hash_data.push(Felt::from(self.continuous_page_headers.len() + 1));

        // Main page.
        hash_data.push(Felt::from(self.main_page.len()));
        hash_data.push(main_page_hash);
        proof {
            assert(fv(hash_data@) =~= hash_head(self, n_verifier_friendly_commitment_layers@) + dyn_part(self) + segments_flat(self.segments@)
                + seq![self.padding_addr@, self.padding_value@, (self.continuous_page_headers@.len() + 1) as nat % P, self.main_page.0@.len() as nat % P, main_page_hash_spec(self.main_page.0@)]);
        }

        // Add the rest of the pages.
        let ghost hd1 = hash_data@;
        crate::hoist::extend_concat(&mut hash_data, &/*+*/{ let hdr_chunks = /*-*/crate::hoist::slice_map(&self.continuous_page_headers, |h/*+*/: &ContinuousPageHeader/*-*/| /*+*/-> (o: Vec<Felt>) ensures o@ == seq![h.start_address, h.size, h.hash] {/*-*/ vec![h.start_address, h.size, h.hash] /*+*/}/*-*/)/*+*/;
            proof { lemma_headers_chunks(self.continuous_page_headers@, hdr_chunks@); }
            hdr_chunks }/*-*/);
        proof { assert(fv(hash_data@) =~= fv(hd1) + headers_flat(self.continuous_page_headers@)); }

        poseidon_hash_many(&hash_data)
    }
//@end
}

//@repo crates/air/src/public_memory.rs fn get_continuous_pages_product props=C15
fn get_continuous_pages_product(page_headers: &[ContinuousPageHeader]) -> (r: (Felt, Felt))
    ensures
        r.0@ == headers_product(page_headers@, page_headers@.len()), // [C15:continuous-pages-product-is-the-product-of-header-prods]
        r.1@ == headers_total(page_headers@, page_headers@.len()),   // [C15:continuous-pages-total-size]
{
    let mut res = FELT_1;
    let mut total_length = FELT_0;
    for header in /*+*/it: /*-*/page_headers
        invariant
            res@ == headers_product(page_headers@, it.index@ as nat),
            total_length@ == headers_total(page_headers@, it.index@ as nat),
    {
        assert(*header == page_headers@[it.index@]);
        res *= header.prod;
        total_length += header.size
    }

    (res, total_length)
}
//@end
} // verus!
} // mod public_memory
