pub mod config {
use vstd::prelude::*;
use crate::prelude::*;
use crate::swiftness_commitment;
use crate::swiftness_commitment::vector;
verus! {
broadcast use crate::prelude::group_felt;
//@hexconst crates/air/src/trace/config.rs MAX_N_COLUMNS vis=
//@verbatim crates/air/src/trace/config.rs struct Config
//@verbatim crates/air/src/trace/config.rs enum Error
//@clone Config
//@from_variants crates/air/src/trace/config.rs Error

pub open spec fn vec_cfg_ok(v: &vector::config::Config, h: nat, nvf: nat) -> bool {
    v.height@ == h && v.n_verifier_friendly_commitment_layers@ == nvf
}
/// ORACLE (C11, traces part): column counts equal the layout's (and lie in 1..=128), both commitments
/// have the expected height and friendly-layer count.
pub open spec fn trace_ok(c: &Config, h: nat, nvf: nat, c1: nat, c2: nat) -> bool {
    &&& c.original.n_columns@ == c1 && 1 <= c1 <= 128
    &&& c.interaction.n_columns@ == c2 && 1 <= c2 <= 128
    &&& vec_cfg_ok(&c.original.vector, h, nvf)
    &&& vec_cfg_ok(&c.interaction.vector, h, nvf)
}

impl Config {
//@repo crates/air/src/trace/config.rs fn Config::validate props=C01,C02,C11
    pub fn validate(
        &self,
        log_eval_domain_size: Felt,
        n_verifier_friendly_commitment_layers: Felt,
        n_columns_original: Felt,
        n_columns_interaction: Felt,
    ) -> (r: Result<(), Error>)
        ensures
            r.is_ok() <==> trace_ok(self, log_eval_domain_size@, n_verifier_friendly_commitment_layers@, n_columns_original@, n_columns_interaction@), // [C01,C02,C11,C18:trace-config-ok-iff-oracle]
    {
        if self.original.n_columns < Felt::ONE || self.original.n_columns > MAX_N_COLUMNS {
            return Err(Error::OutOfBounds { min: Felt::ONE, max: MAX_N_COLUMNS });
        }
        if self.interaction.n_columns < Felt::ONE || self.interaction.n_columns > MAX_N_COLUMNS {
            return Err(Error::OutOfBounds { min: Felt::ONE, max: MAX_N_COLUMNS });
        }
        if self.original.n_columns != n_columns_original {
            return Err(Error::ColumnsNumInvalid);
        }
        if self.interaction.n_columns != n_columns_interaction {
            return Err(Error::ColumnsNumInvalid);
        }

        Ok(self
            .original
            .vector
            .validate(log_eval_domain_size, n_verifier_friendly_commitment_layers)
            .and(
                self.interaction
                    .vector
                    .validate(log_eval_domain_size, n_verifier_friendly_commitment_layers),
            )?)
    }
//@end
}
} // verus!
} // mod config
