use vstd::prelude::*;
use crate::prelude::*;
use crate::swiftness_commitment;
verus! {
//@verbatim crates/air/src/trace/mod.rs struct UnsentCommitment,Commitment,Decommitment,Witness
//@clone Decommitment,Witness
} // verus!
pub mod decommit {
use vstd::prelude::*;
use crate::prelude::*;
use crate::swiftness_commitment::table;
verus! {
//@verbatim crates/air/src/trace/decommit.rs enum Error
//@from_variants crates/air/src/trace/decommit.rs Error
} // verus!
} // mod decommit
