pub mod public_input_binding {
// C13: "Two public inputs of the same layout that differ in any field the statement depends on ... have different transcript
// seeds; equal public inputs have equal seeds."  get_hash is proved to return public_input_hash (poseidon_many of the listed
// sequence).  This lemma reads the statement off that sequence, under the idealisation that Poseidon and Pedersen are injective
// (opt-in axioms of prelude/hash.rs, named in the evidence): equal seeds force equal fields, position by position.
use vstd::prelude::*;
use vstd::arithmetic::div_mod::*;
use crate::prelude::*;
use crate::hashes::*;
use crate::lemmas::*;
use crate::swiftness_air::types::{AddrValue, SegmentInfo, ContinuousPageHeader};
use crate::swiftness_air::public_memory::*;
verus! {
broadcast use crate::prelude::group_felt;

proof fn lemma_segments_flat(s: Seq<SegmentInfo>)
    ensures segments_flat(s).len() == 2 * s.len(),
        forall|i: int| 0 <= i < s.len() ==> segments_flat(s)[2 * i] == (#[trigger] s[i]).begin_addr@ && segments_flat(s)[2 * i + 1] == s[i].stop_ptr@
    decreases s.len()
{
    if s.len() > 0 {
        lemma_segments_flat(s.drop_last());
        assert forall|i: int| 0 <= i < s.len() implies segments_flat(s)[2 * i] == (#[trigger] s[i]).begin_addr@ && segments_flat(s)[2 * i + 1] == s[i].stop_ptr@ by {
            if i < s.len() - 1 { assert(s.drop_last()[i] == s[i]); }
        }
    }
}
proof fn lemma_headers_flat(s: Seq<ContinuousPageHeader>)
    ensures headers_flat(s).len() == 3 * s.len(),
        forall|i: int| 0 <= i < s.len() ==> headers_flat(s)[3 * i] == (#[trigger] s[i]).start_address@ && headers_flat(s)[3 * i + 1] == s[i].size@ && headers_flat(s)[3 * i + 2] == s[i].hash@
    decreases s.len()
{
    if s.len() > 0 {
        lemma_headers_flat(s.drop_last());
        assert forall|i: int| 0 <= i < s.len() implies headers_flat(s)[3 * i] == (#[trigger] s[i]).start_address@ && headers_flat(s)[3 * i + 1] == s[i].size@ && headers_flat(s)[3 * i + 2] == s[i].hash@ by {
            if i < s.len() - 1 { assert(s.drop_last()[i] == s[i]); }
        }
    }
}
/// the Pedersen chain over the page determines every address and value
proof fn lemma_page_chain_inj(a: Seq<AddrValue>, b: Seq<AddrValue>, n: nat)
    requires n <= a.len(), n <= b.len(), page_chain(a, n) == page_chain(b, n)
    ensures forall|i: int| 0 <= i < n ==> (#[trigger] a[i]).address@ == b[i].address@ && a[i].value@ == b[i].value@
    decreases n
{
    broadcast use crate::hashes::axiom_pedersen_inj;
    if n > 0 {
        let m = (n - 1) as nat;
        assert(pedersen(pedersen(page_chain(a, m), a[n - 1].address@), a[n - 1].value@) == pedersen(pedersen(page_chain(b, m), b[n - 1].address@), b[n - 1].value@));
        assert(pedersen(page_chain(a, m), a[n - 1].address@) == pedersen(page_chain(b, m), b[n - 1].address@));
        lemma_page_chain_inj(a, b, m);
    }
}

/// THE BINDING STATEMENT (same layout: same number of segments, dynamic parameters present in both or in neither)
pub proof fn lemma_seed_binds_every_field(p1: &PublicInput, p2: &PublicInput, nvf1: nat, nvf2: nat)
    requires
        public_input_hash(p1, nvf1) == public_input_hash(p2, nvf2),
        p1.segments@.len() == p2.segments@.len(),
        p1.dynamic_params is Some <==> p2.dynamic_params is Some,
        p1.main_page.0@.len() < 0x1_0000_0000_0000_0000, p2.main_page.0@.len() < 0x1_0000_0000_0000_0000,
        p1.continuous_page_headers@.len() + 1 < 0x1_0000_0000_0000_0000, p2.continuous_page_headers@.len() + 1 < 0x1_0000_0000_0000_0000,
    ensures
        hash_head(p1, nvf1) == hash_head(p2, nvf2),                       // step count, range-check bounds, layout code (and the friendly-layer count under Stone 6)
        dyn_part(p1) == dyn_part(p2),                                     // every dynamic parameter, in field order
        forall|i: int| 0 <= i < p1.segments@.len() ==> (#[trigger] p1.segments@[i]).begin_addr@ == p2.segments@[i].begin_addr@ && p1.segments@[i].stop_ptr@ == p2.segments@[i].stop_ptr@,
        p1.padding_addr@ == p2.padding_addr@ && p1.padding_value@ == p2.padding_value@,
        p1.main_page.0@.len() == p2.main_page.0@.len(),
        forall|i: int| 0 <= i < p1.main_page.0@.len() ==> (#[trigger] p1.main_page.0@[i]).address@ == p2.main_page.0@[i].address@ && p1.main_page.0@[i].value@ == p2.main_page.0@[i].value@,
        p1.continuous_page_headers@.len() == p2.continuous_page_headers@.len(),
        forall|i: int| 0 <= i < p1.continuous_page_headers@.len() ==> (#[trigger] p1.continuous_page_headers@[i]).start_address@ == p2.continuous_page_headers@[i].start_address@
            && p1.continuous_page_headers@[i].size@ == p2.continuous_page_headers@[i].size@ && p1.continuous_page_headers@[i].hash@ == p2.continuous_page_headers@[i].hash@, // [C13:lemma-equal-seeds-force-equal-public-input-fields-position-by-position]
{
    broadcast use crate::hashes::axiom_poseidon_many_inj;
    broadcast use crate::hashes::axiom_pedersen_inj;
    let (a, b) = (hash_data_spec(p1, nvf1), hash_data_spec(p2, nvf2));
    assert(a == b);
    let (h1, h2) = (hash_head(p1, nvf1), hash_head(p2, nvf2));
    let (d1, d2) = (dyn_part(p1), dyn_part(p2));
    let (s1, s2) = (segments_flat(p1.segments@), segments_flat(p2.segments@));
    let m1 = seq![p1.padding_addr@, p1.padding_value@, (p1.continuous_page_headers@.len() + 1) as nat % P, p1.main_page.0@.len() as nat % P, main_page_hash_spec(p1.main_page.0@)];
    let m2 = seq![p2.padding_addr@, p2.padding_value@, (p2.continuous_page_headers@.len() + 1) as nat % P, p2.main_page.0@.len() as nat % P, main_page_hash_spec(p2.main_page.0@)];
    let (c1, c2) = (headers_flat(p1.continuous_page_headers@), headers_flat(p2.continuous_page_headers@));
    lemma_segments_flat(p1.segments@); lemma_segments_flat(p2.segments@);
    lemma_headers_flat(p1.continuous_page_headers@); lemma_headers_flat(p2.continuous_page_headers@);
    assert(h1.len() == h2.len());
    assert(d1.len() == d2.len());   // 0 or 340
    assert(s1.len() == s2.len());
    let k0 = h1.len() as int; let k1 = (h1.len() + d1.len()) as int;
    let k = (h1.len() + d1.len() + s1.len()) as int;
    // cut the two equal sequences at the same places
    assert(a == h1 + d1 + s1 + m1 + c1 && b == h2 + d2 + s2 + m2 + c2);
    assert(a.len() == b.len());
    assert(c1.len() == c2.len());
    assert(h1 =~= a.subrange(0, k0) && h2 =~= b.subrange(0, k0));
    assert(d1 =~= a.subrange(k0, k1) && d2 =~= b.subrange(k0, k1));
    assert(s1 =~= a.subrange(k1, k) && s2 =~= b.subrange(k1, k));
    assert(m1 =~= a.subrange(k, k + 5) && m2 =~= b.subrange(k, k + 5));
    assert(c1 =~= a.subrange(k + 5, a.len() as int) && c2 =~= b.subrange(k + 5, a.len() as int));
    // segments
    assert forall|i: int| 0 <= i < p1.segments@.len() implies (#[trigger] p1.segments@[i]).begin_addr@ == p2.segments@[i].begin_addr@ && p1.segments@[i].stop_ptr@ == p2.segments@[i].stop_ptr@ by {
        assert(s1[2 * i] == s2[2 * i] && s1[2 * i + 1] == s2[2 * i + 1]);
    }
    // the five middle elements
    assert(m1[0] == m2[0] && m1[1] == m2[1] && m1[2] == m2[2] && m1[3] == m2[3] && m1[4] == m2[4]);
    lemma_pow2_251_lt_p(); assert(pow2(64) == 0x10000000000000000nat) by(compute_only);
    lemma_small_mod(p1.main_page.0@.len() as nat, P); lemma_small_mod(p2.main_page.0@.len() as nat, P);
    lemma_small_mod((p1.continuous_page_headers@.len() + 1) as nat, P); lemma_small_mod((p2.continuous_page_headers@.len() + 1) as nat, P);
    let n = p1.main_page.0@.len();
    assert(n == p2.main_page.0@.len());
    // main page: pedersen(page_chain, 2*len) equal => chains equal => cells equal
    assert(page_chain(p1.main_page.0@, n) == page_chain(p2.main_page.0@, n));
    lemma_page_chain_inj(p1.main_page.0@, p2.main_page.0@, n);
    // headers
    assert(3 * p1.continuous_page_headers@.len() == 3 * p2.continuous_page_headers@.len());
    assert forall|i: int| 0 <= i < p1.continuous_page_headers@.len() implies (#[trigger] p1.continuous_page_headers@[i]).start_address@ == p2.continuous_page_headers@[i].start_address@
        && p1.continuous_page_headers@[i].size@ == p2.continuous_page_headers@[i].size@ && p1.continuous_page_headers@[i].hash@ == p2.continuous_page_headers@[i].hash@ by {
        assert(c1[3 * i] == c2[3 * i] && c1[3 * i + 1] == c2[3 * i + 1] && c1[3 * i + 2] == c2[3 * i + 2]);
    }
}
} // verus!
} // mod public_input_binding
