pub mod domains {
use vstd::prelude::*;
use crate::prelude::*;
use crate::lemmas::*;
use crate::numth::*;
use vstd::arithmetic::div_mod::*;
verus! {
broadcast use crate::prelude::group_felt;
//@hexconst crates/air/src/domains.rs FIELD_GENERATOR,STARK_PRIME_MINUS_ONE vis=
//@verbatim crates/air/src/domains.rs struct StarkDomains

/// what StarkDomains::new(t, c) must return (property C12)
pub open spec fn domains_ok(d: &StarkDomains, t: nat, c: nat) -> bool {
    &&& d.log_eval_domain_size@ == t + c
    &&& d.log_trace_domain_size@ == t
    &&& d.eval_domain_size@ == pow2(t + c)
    &&& d.trace_domain_size@ == pow2(t)
    &&& d.eval_generator@ == gen(t + c)
    &&& d.trace_generator@ == gen(t)
}

impl StarkDomains {
//@repo crates/air/src/domains.rs fn StarkDomains::new props=C01,C02,C10,C12
    pub fn new(log_trace_domain_size: Felt, log_n_cosets: Felt) -> (r: Self)
        requires
            log_trace_domain_size@ + log_n_cosets@ <= 192, // [C18:domains-new-needs-exponent<=192]
        ensures
            domains_ok(&r, log_trace_domain_size@, log_n_cosets@), // [C01,C02,C10,C12,C18:sizes-and-generators-as-specified]
    {
        proof {
            lemma_pow2_251_lt_p();
            lemma_small_mod(log_trace_domain_size@ + log_n_cosets@, P);
            lemma_pow_mod_two(log_trace_domain_size@ + log_n_cosets@);
            lemma_pow_mod_two(log_trace_domain_size@);
            lemma_fdiv_pm1(log_trace_domain_size@ + log_n_cosets@);
            lemma_fdiv_pm1(log_trace_domain_size@);
        }
        let log_eval_domain_size = log_trace_domain_size + log_n_cosets;
        let eval_domain_size = Felt::TWO.pow_felt(&log_eval_domain_size);
        let trace_domain_size = Felt::TWO.pow_felt(&log_trace_domain_size);

        Self {
            log_eval_domain_size: log_trace_domain_size + log_n_cosets,
            eval_domain_size: Felt::TWO.pow_felt(&log_eval_domain_size),
            eval_generator: FIELD_GENERATOR.pow_felt(
                &STARK_PRIME_MINUS_ONE.field_div(&NonZeroFelt::try_from(eval_domain_size).unwrap()),
            ),
            trace_generator: FIELD_GENERATOR.pow_felt(
                &STARK_PRIME_MINUS_ONE
                    .field_div(&NonZeroFelt::try_from(trace_domain_size).unwrap()),
            ),
            trace_domain_size,
            log_trace_domain_size,
        }
    }
//@end
}

/// C12 as a theorem about every value returned by `new`: orders and the relation between the generators.
pub proof fn theorem_domains(d: &StarkDomains, t: nat, c: nat)
    requires domains_ok(d, t, c), t + c <= 192
    ensures
        pow_mod(d.eval_generator@, d.eval_domain_size@) == 1,                                   // [C12:eval-generator-order-divides-2^(t+c)]
        forall|j: nat| j < t + c ==> pow_mod(d.eval_generator@, pow2(j)) != 1,                  // [C12:eval-generator-order-exactly-2^(t+c)]
        pow_mod(d.trace_generator@, d.trace_domain_size@) == 1,                                 // [C12:trace-generator-order-divides-2^t]
        forall|j: nat| j < t ==> pow_mod(d.trace_generator@, pow2(j)) != 1,                     // [C12:trace-generator-order-exactly-2^t]
        d.trace_generator@ == pow_mod(d.eval_generator@, pow2(c)),                              // [C12:trace-generator-is-eval-generator-to-2^c]
        is_order(d.eval_generator@, pow2(t + c)),                                               // [C12:eval-generator-has-multiplicative-order-exactly-2^(t+c)]
        is_order(d.trace_generator@, pow2(t)),                                                  // [C12:trace-generator-has-multiplicative-order-exactly-2^t]
        d.eval_domain_size@ == pow2(t + c) && d.trace_domain_size@ == pow2(t),                  // [C12:sizes-are-the-powers-of-two]
{
    lemma_gen_order(t + c);
    lemma_gen_order(t);
    assert forall|j: nat| j < t + c implies pow_mod(d.eval_generator@, pow2(j)) != 1 by { lemma_gen_order_minimal(t + c, j); }
    assert forall|j: nat| j < t implies pow_mod(d.trace_generator@, pow2(j)) != 1 by { lemma_gen_order_minimal(t, j); }
    lemma_gen_pow(t + c, c);
    assert((t + c - c) as nat == t);
    // exact order: no exponent below 2^k gives 1 (numth::lemma_order_exactly_pow2)
    lemma_order_exactly_pow2(d.eval_generator@, t + c);
    lemma_order_exactly_pow2(d.trace_generator@, t);
}
} // verus!
} // mod domains
