pub mod stark_curve {
use vstd::prelude::*;
use crate::prelude::*;
verus! {
//@hexconst crates/air/src/layout/mod.rs stark_curve::ALPHA,stark_curve::BETA
} // verus!
} // mod stark_curve
use vstd::prelude::*;
use crate::prelude::*;
use crate::hoist::*;
use crate::lemmas::*;
use crate::swiftness_air::{domains::StarkDomains, public_memory::PublicInput};
use crate::swiftness_transcript::transcript::*;
use crate::swiftness_commitment::table::decommit::table_decommit_ok;
verus! {
broadcast use crate::prelude::group_felt;
//@verbatim crates/air/src/layout/mod.rs enum CompositionPolyEvalError,OodsPolyEvalError,PublicInputError,CheckAssertsError,SafeMultError
//@debug OodsPolyEvalError,CompositionPolyEvalError,PublicInputError
//@from_variants crates/air/src/layout/mod.rs CompositionPolyEvalError
//@from_variants crates/air/src/layout/mod.rs OodsPolyEvalError
//@from_variants crates/air/src/layout/mod.rs PublicInputError
//@from_variants crates/air/src/layout/mod.rs CheckAssertsError

//@repo crates/air/src/layout/mod.rs fn safe_div props=C18
pub fn safe_div(value: Felt, divisor: Felt) -> (r: Result<Felt, FeltIsZeroError>)
    ensures
        r.is_ok() <==> divisor@ != 0, // [C18:zero-divisor-is-an-error-not-a-panic]
        r.is_ok() ==> r->Ok_0@ == value@ / divisor@,
{
    Ok(value.floor_div(&NonZeroFelt::try_from(divisor)?))
}
//@end

/// GHOST trait (not in the repository): the mathematical description of a layout that the two
/// repository traits are specified against.
pub trait LayoutSpec {
    /// the layout needs `public_input.dynamic_params` (dynamic layout) and they are present, or it does not need them
    spec fn params_known(pi: &PublicInput) -> bool;
    /// number of columns of the first / second trace for this public input
    spec fn n_cols(pi: &PublicInput) -> (nat, nat);
    /// exactly what validate_public_input checks (the code's own reading; its relation to the memory-layout oracle of
    /// property C14 is stated and checked per layout)
    spec fn public_input_ok(pi: &PublicInput, domains: &StarkDomains) -> bool;
    /// what eval_composition_polynomial relies on (a consequence of public_input_ok, see lemma_composition_pre)
    spec fn composition_pre(pi: &PublicInput, trace_domain_size: nat) -> bool;
    /// value of the DEEP / out-of-domain-sampling quotient combination for one row of decommitted cells
    spec fn oods_poly_spec(pi: &PublicInput, column_values: Seq<nat>, oods_values: Seq<nat>, coeffs: Seq<nat>, point: nat, oods_point: nat, trace_generator: nat) -> nat;
}

//@repo crates/air/src/layout/mod.rs trait LayoutTrait props=C01,C02
pub trait LayoutTrait/*+*/: LayoutSpec/*-*/ {
    type InteractionElements;
    const CONSTRAINT_DEGREE: usize;
    const N_CONSTRAINTS: usize;
    const MASK_SIZE: usize;
    /*+*/
    /// every layout in the repository has constraint degree 2 and small constants (proved per layout)
    proof fn lemma_constants()
        ensures Self::CONSTRAINT_DEGREE == 2, 0 < Self::MASK_SIZE <= 100000, 0 < Self::N_CONSTRAINTS <= 100000;
    /// value of the composition polynomial computed from the mask values (when evaluation succeeds)
    spec fn composition_spec(ie: &Self::InteractionElements, pi: &PublicInput, mask: Seq<nat>, coeffs: Seq<nat>, point: nat, trace_domain_size: nat, trace_generator: nat) -> nat;
    /// the interaction elements are the squeezes drawn from a transcript in state (digest, 0), and leave counter `n`
    spec fn ie_ok(ie: &Self::InteractionElements, digest: nat) -> bool;
    spec fn n_ie() -> nat;
    proof fn lemma_composition_pre(pi: &PublicInput, domains: &StarkDomains)
        requires Self::public_input_ok(pi, domains)
        ensures Self::composition_pre(pi, domains.trace_domain_size@);
    /*-*/
    fn eval_composition_polynomial(
        interaction_elements: &Self::InteractionElements,
        public_input: &PublicInput,
        mask_values: &[Felt],
        constraint_coefficients: &[Felt],
        point: &Felt,
        trace_domain_size: &Felt,
        trace_generator: &Felt,
    ) -> (r: Result<Felt, CompositionPolyEvalError>)
        requires
            mask_values@.len() == Self::MASK_SIZE,                    // [C01,C02,C18:composition-evaluated-on-exactly-MASK_SIZE-values]
            constraint_coefficients@.len() == Self::N_CONSTRAINTS,    // [C16,C18:one-coefficient-per-constraint]
            Self::composition_pre(public_input, trace_domain_size@),  // [C18:composition-evaluated-after-public-input-validation]
        ensures
            r.is_ok() ==> r->Ok_0@ == Self::composition_spec(interaction_elements, public_input, fv(mask_values@), fv(constraint_coefficients@), point@, trace_domain_size@, trace_generator@),
    ;
    fn eval_oods_polynomial(
        public_input: &PublicInput,
        column_values: &[Felt],
        oods_values: &[Felt],
        constraint_coefficients: &[Felt],
        point: &Felt,
        oods_point: &Felt,
        trace_generator: &Felt,
    ) -> (r: Result<Felt, OodsPolyEvalError>)
        requires
            Self::params_known(public_input),
            column_values@.len() == Self::n_cols(public_input).0 + Self::n_cols(public_input).1 + Self::CONSTRAINT_DEGREE, // [C01,C02,C18:deep-row-has-all-trace-and-composition-cells]
            oods_values@.len() == Self::MASK_SIZE + Self::CONSTRAINT_DEGREE,             // [C01,C02,C18:deep-reads-the-same-oods-vector-positions-0..MASK+DEGREE]
            constraint_coefficients@.len() == Self::MASK_SIZE + Self::CONSTRAINT_DEGREE, // [C16,C18:one-coefficient-per-opening]
        ensures
            r.is_ok(),
            r->Ok_0@ == Self::oods_poly_spec(public_input, fv(column_values@), fv(oods_values@), fv(constraint_coefficients@), point@, oods_point@, trace_generator@),
    ;
    fn validate_public_input(
        public_input: &PublicInput,
        stark_domains: &StarkDomains,
    ) -> (r: Result<(), PublicInputError>)
        ensures
            r.is_ok() <==> Self::public_input_ok(public_input, stark_domains), // [C14:validate-public-input-ok-iff-the-layout-checks-hold]
    ;
    fn traces_commit(
        transcript: &mut Transcript,
        unsent_commitment: &crate::swiftness_air::trace::UnsentCommitment,
        config: crate::swiftness_air::trace::config::Config,
    ) -> (r: crate::swiftness_air::trace::Commitment<Self::InteractionElements>)
        ensures
            r.original.config == config.original && r.original.vector_commitment.config == config.original.vector
                && r.original.vector_commitment.commitment_hash == unsent_commitment.original,      // [C01,C02,C08:original-trace-root-committed]
            r.interaction.config == config.interaction && r.interaction.vector_commitment.config == config.interaction.vector
                && r.interaction.vector_commitment.commitment_hash == unsent_commitment.interaction, // [C01,C02,C08:interaction-trace-root-committed]
            Self::ie_ok(&r.interaction_elements, ts_absorb1(old(transcript).digest@, unsent_commitment.original@)), // [C01,C02,C08:interaction-elements-squeezed-after-original-root]
            final(transcript).digest@ == ts_absorb1(ts_absorb1(old(transcript).digest@, unsent_commitment.original@), unsent_commitment.interaction@), // [C08:both-trace-roots-absorbed-in-order]
            final(transcript).counter@ == 0,
    ;
    fn traces_decommit(
        queries: &[Felt],
        commitment: crate::swiftness_air::trace::Commitment<Self::InteractionElements>,
        decommitment: crate::swiftness_air::trace::Decommitment,
        witness: crate::swiftness_air::trace::Witness,
    ) -> (r: Result<(), crate::swiftness_air::trace::decommit::Error>)
        requires
            queries@.len() <= 0xffff_ffff,
        ensures
            r.is_ok() <==> (table_decommit_ok(&commitment.original, fv(queries@), fv(decommitment.original.values@), fv(witness.original.vector.authentications@))
                && table_decommit_ok(&commitment.interaction, fv(queries@), fv(decommitment.interaction.values@), fv(witness.interaction.vector.authentications@))), // [C01,C02,C18:both-traces-decommit-against-their-roots]
    ;
    fn verify_public_input(public_input: &PublicInput) -> (r: Result<(Felt, Felt), PublicInputError>);
}
//@end

//@repo crates/air/src/layout/mod.rs trait StaticLayoutTrait
pub trait StaticLayoutTrait {
    const NUM_COLUMNS_FIRST: usize;
    const NUM_COLUMNS_SECOND: usize;
}
//@end

//@repo crates/air/src/layout/mod.rs trait GenericLayoutTrait props=C01,C02
pub trait GenericLayoutTrait/*+*/: LayoutSpec/*-*/ {
    fn get_num_columns_first(public_input: &PublicInput) -> (r: Option<usize>)
        ensures r is Some <==> Self::params_known(public_input), r is Some ==> r->Some_0 == Self::n_cols(public_input).0, // [C01,C02,C11:first-trace-column-count-is-the-layout's]
    ;
    fn get_num_columns_second(public_input: &PublicInput) -> (r: Option<usize>)
        ensures r is Some <==> Self::params_known(public_input), r is Some ==> r->Some_0 == Self::n_cols(public_input).1, // [C01,C02,C11:second-trace-column-count-is-the-layout's]
    ;
}
//@end
} // verus!
verus! {
// ---- hoisted iterator expressions of verify_public_input (ASSUMED std semantics, A-iter) --------------------
use crate::swiftness_air::types::{Page, AddrValue};
use crate::hashes::pedersen;
pub open spec fn page_flat(cells: Seq<AddrValue>) -> Seq<nat> decreases cells.len() {
    if cells.len() == 0 { Seq::<nat>::empty() } else { page_flat(cells.drop_last()) + seq![cells.last().address@, cells.last().value@] }
}
pub proof fn lemma_page_chunks(s: Seq<AddrValue>, chunks: Seq<Vec<Felt>>)
    requires chunks.len() == s.len(), forall|i: int| 0 <= i < s.len() ==> (#[trigger] chunks[i])@ == seq![s[i].address, s[i].value]
    ensures fv(concat_vecs(chunks)) == page_flat(s), concat_vecs(chunks).len() == 2 * s.len()
    decreases s.len()
{
    if s.len() == 0 {
        assert(fv(concat_vecs(chunks)) =~= page_flat(s));
    } else {
        lemma_page_chunks(s.drop_last(), chunks.drop_last());
        assert(fv(concat_vecs(chunks)) =~= fv(concat_vecs(chunks.drop_last())) + fv(chunks.last()@));
        assert(fv(chunks.last()@) =~= seq![s.last().address@, s.last().value@]);
    }
}
/// number of elements of `memory.iter().skip(a).step_by(2).take(b)`
pub open spec fn sst_len(len: nat, a: nat, b: nat) -> nat {
    let avail = if a >= len { 0 } else { (len - a + 1) / 2 };
    if b < avail { b } else { avail as nat }
}
#[verifier::external_body]
pub fn hoisted_skip_step2_take(memory: &Vec<Felt>, a: usize, b: usize) -> (r: Vec<&Felt>)
    ensures
        r@.len() == sst_len(memory@.len() as nat, a as nat, b as nat),
        forall|i: int| 0 <= i < r@.len() ==> *(#[trigger] r@[i]) == memory@[a + 2 * i],
{ unimplemented!() }
/// left fold of pedersen over a sequence, starting from 0
pub open spec fn pedersen_fold(s: Seq<nat>, n: nat) -> nat decreases n {
    if n == 0 { 0 } else { pedersen(pedersen_fold(s, (n - 1) as nat), s[n - 1]) }
}
#[verifier::external_body]
pub fn hoisted_fold_pedersen_refs(program: &Vec<&Felt>) -> (r: Felt)
    ensures r@ == pedersen_fold(program@.map_values(|f: &Felt| f@), program@.len()),
{ unimplemented!() }
/// POSITIONAL reading of the returned hashes (what the code computes; the address-based reading of C14 is a separate clause):
/// program = the values of the first min(initial_fp - 3, page length) main-page cells; output = the values of the last
/// (output_stop - output_start) cells; each hashed as a Pedersen chain from 0, finished with the count
pub open spec fn program_hash_spec(pi: &PublicInput) -> nat {
    let flat = page_flat(pi.main_page.0@);
    let n_take = fsub(fsub(pi.segments@[1].begin_addr@, 2), 1);
    let n = sst_len(flat.len(), 1, n_take);
    pedersen(pedersen_fold(Seq::new(n, |i: int| flat[1 + 2 * i]), n), n)
}
pub open spec fn output_hash_spec(pi: &PublicInput) -> nat {
    let flat = page_flat(pi.main_page.0@);
    let k = fsub(pi.segments@[2].stop_ptr@, pi.segments@[2].begin_addr@);
    pedersen(pedersen_fold(odd_elems(flat.subrange(flat.len() - 2 * k, flat.len() as int)), k), k)
}
/// the odd-position elements s[1], s[3], ...
pub open spec fn odd_elems(s: Seq<nat>) -> Seq<nat> { Seq::new(s.len() / 2, |i: int| s[2 * i + 1]) }
#[verifier::external_body]
pub fn hoisted_fold_pedersen_odd(output: &[Felt]) -> (r: Felt)
    ensures r@ == pedersen_fold(odd_elems(fv(output@)), output@.len() / 2),
{ unimplemented!() }
} // verus!
