pub mod consts {
use vstd::prelude::*;
use crate::prelude::*;
verus! {
//@hexconst crates/air/src/consts.rs *
} // verus!
} // mod consts
