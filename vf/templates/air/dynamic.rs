pub mod dynamic {
use vstd::prelude::*;
use crate::prelude::*;
verus! {
//@verbatim crates/air/src/dynamic.rs struct DynamicParams
//@clone DynamicParams
} // verus!
} // mod dynamic
