pub mod config {
use vstd::prelude::*;
use crate::prelude::*;
verus! {
broadcast use crate::prelude::group_felt;
//@verbatim crates/commitment/src/vector/config.rs struct Config
//@verbatim crates/commitment/src/vector/config.rs enum Error
//@clone Config
impl Config {
//@repo crates/commitment/src/vector/config.rs fn Config::validate props=C01,C02,C11
    pub fn validate(
        &self,
        expected_height: Felt,
        expected_n_verifier_friendly_commitment_layers: Felt,
    ) -> (r: Result<(), Error>)
        ensures
            r.is_ok() <==> (self.height@ == expected_height@
                && self.n_verifier_friendly_commitment_layers@ == expected_n_verifier_friendly_commitment_layers@), // [C01,C02,C11:vector-config-height-and-friendly-count]
    {
        if self.height != expected_height {
            return Err(Error::MisMatch { value: self.height, expected: expected_height });
        }
        if self.n_verifier_friendly_commitment_layers
            != expected_n_verifier_friendly_commitment_layers
        {
            return Err(Error::MisMatch {
                value: self.n_verifier_friendly_commitment_layers,
                expected: expected_n_verifier_friendly_commitment_layers,
            });
        }

        Ok(())
    }
//@end
}
} // verus!
} // mod config
