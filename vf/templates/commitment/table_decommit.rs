pub mod decommit {
use vstd::prelude::*;
use crate::prelude::*;
use crate::hashes::*;
use crate::hoist::*;
use crate::lemmas::*;
use super::types::{Commitment, Decommitment, Witness};
use crate::swiftness_commitment::vector::{decommit::vector_commitment_decommit, types::Query};
use crate::swiftness_commitment::vector::decommit::{decommit_root, query_pairs};
verus! {
broadcast use crate::prelude::group_felt;
//@hexconst crates/commitment/src/table/decommit.rs MONTGOMERY_R vis=
//@verbatim crates/commitment/src/table/decommit.rs enum Error
//@from_variants crates/commitment/src/table/decommit.rs Error

// ---------------------------------------------------------------------------------------------
// SPEC (property C05)
pub spec const R_MONT: nat = 0x7FFFFFFFFFFFDF0FFFFFFFFFFFFFFFFFFFFFFFFFFFFFFFFFFFFFFFFFFFFFFE1nat;
/// the constant in the code is 2^256 mod P (Montgomery R)
pub proof fn lemma_montgomery_r() ensures R_MONT == pow2(256) % P { assert(R_MONT == pow2(256) % P) by(compute_only); }

/// masked digest of the concatenated 32-byte big-endian Montgomery cells of a row
//@iffeature keccak_160_lsb
pub open spec fn masked_row_hash(row: Seq<nat>) -> nat { be_nat(keccak256(concat_be32(row)).subrange(12, 32)) % P }
//@iffeature keccak_248_lsb
pub open spec fn masked_row_hash(row: Seq<nat>) -> nat { be_nat(keccak256(concat_be32(row)).subrange(1, 32)) % P }
//@iffeature blake2s_160_lsb
pub open spec fn masked_row_hash(row: Seq<nat>) -> nat { be_nat(blake2s256(concat_be32(row)).subrange(12, 32)) % P }
//@iffeature blake2s_248_lsb
pub open spec fn masked_row_hash(row: Seq<nat>) -> nat { be_nat(blake2s256(concat_be32(row)).subrange(1, 32)) % P }

/// cells in Montgomery form
pub open spec fn mont(values: Seq<nat>) -> Seq<nat> { values.map_values(|v: nat| fmul(v, R_MONT)) }
/// leaf value for row i: single-column rows are used unhashed, otherwise poseidon_many / masked digest
pub open spec fn row_leaf(mvalues: Seq<nat>, i: int, n_columns: nat, friendly: bool) -> nat {
    if n_columns == 1 { mvalues[i] }
    else if friendly { poseidon_many(mvalues.subrange(i * n_columns, (i + 1) * n_columns)) }
    else { masked_row_hash(mvalues.subrange(i * n_columns, (i + 1) * n_columns)) }
}
pub open spec fn row_queries(queries: Seq<nat>, mvalues: Seq<nat>, n_columns: nat, friendly: bool) -> Seq<(nat, nat)> {
    Seq::new(queries.len(), |i: int| (queries[i], row_leaf(mvalues, i, n_columns, friendly)))
}
/// friendly-layer rule for the row layer: depth height+1
pub open spec fn bottom_friendly(c: &Commitment) -> bool {
    c.vector_commitment.config.n_verifier_friendly_commitment_layers@ >= fadd(c.vector_commitment.config.height@, 1)
}
/// ORACLE: what a successful table decommitment means
pub open spec fn table_decommit_ok(c: &Commitment, queries: Seq<nat>, values: Seq<nat>, auth: Seq<nat>) -> bool {
    &&& c.config.n_columns@ <= u32::MAX
    &&& c.config.n_columns@ * queries.len() == values.len()
    &&& decommit_root(&c.vector_commitment, row_queries(queries, mont(values), c.config.n_columns@, bottom_friendly(c)), auth)
            == Some(c.vector_commitment.commitment_hash@)
}

pub proof fn lemma_be_chunks(s: Seq<Felt>, chunks: Seq<Vec<u8>>)
    requires chunks.len() == s.len(), forall|i: int| 0 <= i < s.len() ==> (#[trigger] chunks[i])@ == be32(s[i]@)
    ensures concat_vecs(chunks) == concat_be32(fv(s))
    decreases s.len()
{
    if s.len() == 0 {
        assert(concat_vecs(chunks) =~= concat_be32(fv(s)));
    } else {
        lemma_be_chunks(s.drop_last(), chunks.drop_last());
        assert(fv(s).drop_last() =~= fv(s.drop_last()));
        assert(fv(s).last() == s.last()@);
        assert(concat_vecs(chunks) =~= concat_vecs(chunks.drop_last()) + chunks.last()@);
    }
}

//@repo crates/commitment/src/table/decommit.rs fn table_decommit props=C01,C02,C05 rules=H_into_iter_map_collect
pub fn table_decommit(
    commitment: Commitment,
    queries: &[Felt],
    decommitment: Decommitment,
    witness: Witness,
) -> (r: Result<(), Error>)
    requires
        queries@.len() <= 0xffff_ffff, // [C18:table-decommit-query-count-fits-u32]
    ensures
        r.is_ok() <==> table_decommit_ok(&commitment, fv(queries@), fv(decommitment.values@), fv(witness.vector.authentications@)), // [C01,C02,C05,C06,C07,C18:table-decommit-ok-iff-count-matches-and-rows-decommit]
{
    // An extra layer is added to the height since the table is considered as a layer, which is not
    // included in vector_commitment.config.
    let bottom_layer_depth = commitment.vector_commitment.config.height + 1;

    // Determine if the table commitment should use a verifier friendly hash function for the bottom
    // layer. The other layers' hash function will be determined in the vector_commitment logic.
    let is_bottom_layer_verifier_friendly =
        commitment.vector_commitment.config.n_verifier_friendly_commitment_layers
            >= bottom_layer_depth;

    let n_columns: u32 = commitment.config.n_columns.to_bigint().try_into()?;
    proof {
        assert(n_columns as usize * queries.len() <= 0xffff_ffff * 0xffff_ffff) by(nonlinear_arith)
            requires n_columns <= 0xffff_ffff, queries.len() <= 0xffff_ffff;
    }
    if n_columns as usize * queries.len() != decommitment.values.len() {
        return Err(Error::DecommitmentLength);
    }

    // Convert decommitment values to Montgomery form, since the commitment is in that form.
    let montgomery_values: Vec<Felt> =
        crate::hoist::vec_map(decommitment.values, |v/*+*/: Felt/*-*/| /*+*/-> (o: Felt) ensures o@ == fmul(v@, R_MONT) {/*-*/ v * MONTGOMERY_R /*+*/}/*-*/);
    proof { assert(fv(montgomery_values@) =~= mont(fv(decommitment.values@))); }

    // Generate queries to the underlying vector commitment.
    let vector_queries = generate_vector_queries(
        queries,
        &montgomery_values,
        n_columns,
        is_bottom_layer_verifier_friendly,
    );

    Ok(vector_commitment_decommit(commitment.vector_commitment, &vector_queries, witness.vector)?)
}
//@end

//@repo crates/commitment/src/table/decommit.rs fn generate_vector_queries props=C01,C02,C05 rules=H_extend_flat_map_be_bytes
fn generate_vector_queries(
    queries: &[Felt],
    values: &[Felt],
    n_columns: u32,
    is_verifier_friendly: bool,
) -> (r: Vec<Query>)
    requires
        n_columns as nat * queries@.len() == values@.len(), // [C01,C02,C05,C18:row-count-checked-before-hashing]
    ensures
        query_pairs(r@) == row_queries(fv(queries@), fv(values@), n_columns as nat, is_verifier_friendly), // [C01,C02,C05:one-leaf-per-queried-row-hash-by-friendly-rule]
{
    let mut vector_queries/*+*/: Vec<Query>/*-*/ = Vec::new();
    for i in 0..queries.len()
        invariant
            n_columns as nat * queries@.len() == values@.len(),
            vector_queries@.len() == i,
            forall|j: int| 0 <= j < i ==> (#[trigger] vector_queries@[j]).index == queries@[j]
                && vector_queries@[j].value@ == row_leaf(fv(values@), j, n_columns as nat, is_verifier_friendly),
    {
        proof {
            assert((i + 1) * n_columns as nat <= queries@.len() * n_columns as nat) by(nonlinear_arith) requires i < queries@.len();
            assert(i * n_columns as nat <= (i + 1) * n_columns as nat) by(nonlinear_arith);
            assert(queries@.len() * n_columns as nat == n_columns as nat * queries@.len()) by(nonlinear_arith);
            assert(values.len() <= usize::MAX);
        }
        let hash = if n_columns == 1 {
            values[i]
        } else if is_verifier_friendly {
            let slice = &values[(i * n_columns as usize)..((i + 1) * n_columns as usize)];
            proof { assert(fv(slice@) =~= fv(values@).subrange(i * n_columns as int, (i + 1) * n_columns as int)); }
            poseidon_hash_many(slice)
        } else {
            let slice = &values[(i * n_columns as usize)..((i + 1) * n_columns as usize)];
            proof { assert(fv(slice@) =~= fv(values@).subrange(i * n_columns as int, (i + 1) * n_columns as int)); }
            let mut data/*+*/: Vec<u8>/*-*/ = Vec::new();
            crate::hoist::extend_concat(&mut data, &/*+*/{ let byte_chunks = /*-*/crate::hoist::slice_map(slice, |x/*+*/: &Felt/*-*/| /*+*/-> (o: Vec<u8>) ensures o@ == be32(x@) { let t = /*-*/ x.to_bytes_be().to_vec() /*+*/; proof { assert(t@ =~= be32(x@)); } t }/*-*/)/*+*/;
                proof { lemma_be_chunks(slice@, byte_chunks@); }
                byte_chunks }/*-*/);
            proof { assert(data@ =~= concat_be32(fv(slice@))); }

            let mut hasher = {
                {
                    Keccak256::new()
                }
            };
            hasher.update(&data);

            {
                {
                    Felt::from_bytes_be_slice(&hasher.finalize().as_slice()[12..32])
                }
            }
        };

        vector_queries.push(Query { index: queries[i], value: hash })
    }
    proof {
        assert(query_pairs(vector_queries@) =~= row_queries(fv(queries@), fv(values@), n_columns as nat, is_verifier_friendly));
    }

    vector_queries
}
//@end
} // verus!
} // mod decommit
