pub mod merkle_lemmas {
// C04: COMPLETENESS and BINDING of the work-list walk `root_spec` (the value vector_commitment_decommit / compute_root_from_queries
// are proved to compute), machine-checked:
//  * completeness: if the pending entries are nodes of a hash tree `node` (any tree obeying the friendly-layer rule) and the
//    authentication values are that tree's sibling nodes, the walk yields node(1), the committed root;
//  * binding: two well-formed openings of the same positions that yield the same root have the same queried values and the same
//    authentication nodes, provided the node hash is collision free (a HYPOTHESIS of the lemma: hash_collision_free()).
// Not mechanised: that the walk of a sorted set of distinct in-range leaves reads every entry (reads_all), see DESIGN.md.
use vstd::prelude::*;
use vstd::arithmetic::div_mod::*;
use crate::prelude::*;
use super::decommit::{root_spec, node_hash, QD};
verus! {
// ------------------------------------------------------------------ the committed tree
/// heap index j lies in layer d (the root is index 1 in layer 0)
pub open spec fn at_depth(j: nat, d: nat) -> bool { pow2(d) <= j < pow2(d + 1) }
/// `node` is a hash tree under the friendly-layer rule: children in layer d are hashed with Poseidon iff nvf >= d
pub open spec fn tree_rule(node: spec_fn(nat) -> nat, nvf: nat) -> bool {
    forall|i: nat, d: nat| #![trigger node(i), at_depth(2 * i, d)] at_depth(2 * i, d) ==> node(i) == node_hash(node(2 * i), node(2 * i + 1), nvf >= d)
}
/// every pending entry is a node of the tree, with its layer, and indices / depths are small (they are field elements in the code)
pub open spec fn entries_ok(queue: Seq<QD>, start: nat, node: spec_fn(nat) -> nat) -> bool {
    forall|k: int| start <= k < queue.len() ==> {
        &&& (#[trigger] queue[k]).value == node(queue[k].index)
        &&& at_depth(queue[k].index, queue[k].depth)
        &&& queue[k].index + 1 < P && queue[k].depth < P
    }
}
/// the authentication nodes the walk consumes are the tree's sibling nodes (same recursion as the walk)
pub open spec fn auth_from_tree(queue: Seq<QD>, start: nat, nvf: nat, auth: Seq<nat>, auth_start: nat, node: spec_fn(nat) -> nat) -> bool
    decreases (auth.len() - auth_start), (queue.len() - start)
{
    if start >= queue.len() { false } else {
        let cur = queue[start as int];
        if cur.index == 1 { true } else {
            let parent = cur.index / 2;
            let friendly = nvf >= cur.depth;
            let pdepth = fsub(cur.depth, 1);
            if cur.index % 2 == 0 && start + 1 != queue.len() && fadd(cur.index, 1) == queue[start as int + 1].index {
                auth_from_tree(queue.push(QD { index: parent, value: node_hash(cur.value, queue[start as int + 1].value, friendly), depth: pdepth }),
                               start + 2, nvf, auth, auth_start, node)
            } else if auth_start >= auth.len() { false } else {
                let sib = if cur.index % 2 == 0 { cur.index + 1 } else { (cur.index - 1) as nat };
                let h = if cur.index % 2 == 0 { node_hash(cur.value, auth[auth_start as int], friendly) }
                        else { node_hash(auth[auth_start as int], cur.value, friendly) };
                auth[auth_start as int] == node(sib)
                && auth_from_tree(queue.push(QD { index: parent, value: h, depth: pdepth }), start + 1, nvf, auth, auth_start + 1, node)
            }
        }
    }
}

proof fn lemma_pow2_pos(e: nat) ensures pow2(e) >= 1 decreases e { if e > 0 { lemma_pow2_pos((e - 1) as nat); } }
/// parent of a node in layer d >= 1 is in layer d-1; both children of that parent are in layer d
proof fn lemma_parent_depth(j: nat, d: nat)
    requires at_depth(j, d), j >= 2
    ensures d >= 1, at_depth(j / 2, (d - 1) as nat), at_depth(2 * (j / 2), d), j % 2 == 0 ==> 2 * (j / 2) == j, j % 2 == 1 ==> 2 * (j / 2) + 1 == j
{
    if d == 0 { assert(pow2(1) == 2) by(compute_only); assert(false); }
    let h = pow2((d - 1) as nat);
    lemma_pow2_pos((d - 1) as nat);
    assert(pow2(d) == 2 * h && pow2(d + 1) == 2 * pow2(d));
    lemma_fundamental_div_mod(j as int, 2);
}

/// COMPLETENESS: queried nodes of the committed tree + the tree's sibling nodes  ==>  the walk yields the committed root
pub proof fn lemma_complete(queue: Seq<QD>, start: nat, nvf: nat, auth: Seq<nat>, auth_start: nat, node: spec_fn(nat) -> nat)
    requires tree_rule(node, nvf), entries_ok(queue, start, node), auth_from_tree(queue, start, nvf, auth, auth_start, node)
    ensures root_spec(queue, start, nvf, auth, auth_start) == Some(node(1)) // [C04,C05:lemma-completeness-queried-nodes-and-sibling-nodes-of-the-committed-tree-yield-its-root]
    decreases (auth.len() - auth_start), (queue.len() - start)
{
    let cur = queue[start as int];
    if cur.index != 1 {
        assert(cur.index >= 2) by { lemma_pow2_pos(cur.depth); }
        lemma_parent_depth(cur.index, cur.depth);
        let parent = cur.index / 2;
        let friendly = nvf >= cur.depth;
        let pdepth = fsub(cur.depth, 1);
        assert(pdepth == cur.depth - 1) by {
            lemma_mod_multiples_vanish(1, cur.depth as int - 1, P as int);
            assert(((cur.depth + P) - 1) as int == P as int * 1 + (cur.depth as int - 1)) by(nonlinear_arith);
            lemma_small_mod((cur.depth - 1) as nat, P);
        }
        assert(fadd(cur.index, 1) == cur.index + 1) by { lemma_small_mod(cur.index + 1, P); }
        assert(node(parent) == node_hash(node(2 * parent), node(2 * parent + 1), friendly));
        if cur.index % 2 == 0 && start + 1 != queue.len() && fadd(cur.index, 1) == queue[start as int + 1].index {
            let nxt = queue[start as int + 1];
            let q2 = queue.push(QD { index: parent, value: node_hash(cur.value, nxt.value, friendly), depth: pdepth });
            assert(entries_ok(q2, start + 2, node)) by {
                assert forall|k: int| start + 2 <= k < q2.len() implies (#[trigger] q2[k]).value == node(q2[k].index) && at_depth(q2[k].index, q2[k].depth) && q2[k].index + 1 < P && q2[k].depth < P by {
                    if k < queue.len() { assert(q2[k] == queue[k]); }
                }
            }
            lemma_complete(q2, start + 2, nvf, auth, auth_start, node);
        } else {
            let a = auth[auth_start as int];
            let h = if cur.index % 2 == 0 { node_hash(cur.value, a, friendly) } else { node_hash(a, cur.value, friendly) };
            let q2 = queue.push(QD { index: parent, value: h, depth: pdepth });
            assert(entries_ok(q2, start + 1, node)) by {
                assert forall|k: int| start + 1 <= k < q2.len() implies (#[trigger] q2[k]).value == node(q2[k].index) && at_depth(q2[k].index, q2[k].depth) && q2[k].index + 1 < P && q2[k].depth < P by {
                    if k < queue.len() { assert(q2[k] == queue[k]); }
                }
            }
            lemma_complete(q2, start + 1, nvf, auth, auth_start + 1, node);
        }
    }
}

// ------------------------------------------------------------------ binding
/// the node hash is collision free (the idealisation under which a Merkle opening binds; a HYPOTHESIS of the lemma, not an axiom)
pub open spec fn hash_collision_free() -> bool {
    forall|a: nat, b: nat, c: nat, d: nat, f: bool| #![trigger node_hash(a, b, f), node_hash(c, d, f)] node_hash(a, b, f) == node_hash(c, d, f) ==> a == c && b == d
}
/// same indices and depths at every pending position
pub open spec fn same_shape(q1: Seq<QD>, q2: Seq<QD>, start: nat) -> bool {
    q1.len() == q2.len() && forall|k: int| start <= k < q1.len() ==> (#[trigger] q1[k]).index == q2[k].index && q1[k].depth == q2[k].depth
}
/// the parent entry the walk pushes at this step (None at the root / when it stops)
pub open spec fn step_next(queue: Seq<QD>, start: nat, nvf: nat, auth: Seq<nat>, auth_start: nat) -> Option<(Seq<QD>, nat, nat)> {
    if start >= queue.len() { None } else {
        let cur = queue[start as int];
        if cur.index == 1 { None } else {
            let parent = cur.index / 2;
            let friendly = nvf >= cur.depth;
            let pdepth = fsub(cur.depth, 1);
            if cur.index % 2 == 0 && start + 1 != queue.len() && fadd(cur.index, 1) == queue[start as int + 1].index {
                Some((queue.push(QD { index: parent, value: node_hash(cur.value, queue[start as int + 1].value, friendly), depth: pdepth }), start + 2, auth_start))
            } else if auth_start >= auth.len() { None } else {
                let h = if cur.index % 2 == 0 { node_hash(cur.value, auth[auth_start as int], friendly) }
                        else { node_hash(auth[auth_start as int], cur.value, friendly) };
                Some((queue.push(QD { index: parent, value: h, depth: pdepth }), start + 1, auth_start + 1))
            }
        }
    }
}
/// number of authentication nodes the walk consumes
pub open spec fn n_consumed(queue: Seq<QD>, start: nat, nvf: nat, auth: Seq<nat>, auth_start: nat) -> nat
    decreases (auth.len() - auth_start), (queue.len() - start)
{
    match step_next(queue, start, nvf, auth, auth_start) {
        None => 0,
        Some((q, st, au)) => if au + (q.len() - st) < auth_start + (queue.len() - start) || au > auth_start { (au - auth_start) as nat + n_consumed(q, st, nvf, auth, au) } else { 0 },
    }
}
/// well-formed opening: when the walk reaches the root entry nothing is left over (every pending entry gets read)
pub open spec fn reads_all(queue: Seq<QD>, start: nat, nvf: nat, auth: Seq<nat>, auth_start: nat) -> bool
    decreases (auth.len() - auth_start), (queue.len() - start)
{
    if start >= queue.len() { false } else if queue[start as int].index == 1 { start + 1 == queue.len() } else {
        match step_next(queue, start, nvf, auth, auth_start) {
            None => false,
            Some((q, st, au)) => if au > auth_start || (au == auth_start && q.len() - st < queue.len() - start) { reads_all(q, st, nvf, auth, au) } else { false },
        }
    }
}

/// BINDING: two well-formed openings of the same positions that reach the same root carry the same queried values and the same
/// authentication nodes (everything the walk reads), if the node hash is collision free
pub proof fn lemma_binding(q1: Seq<QD>, q2: Seq<QD>, start: nat, nvf: nat, a1: Seq<nat>, a2: Seq<nat>, s: nat)
    requires
        hash_collision_free(), same_shape(q1, q2, start), a1.len() == a2.len(),
        reads_all(q1, start, nvf, a1, s),
        root_spec(q1, start, nvf, a1, s) is Some,
        root_spec(q1, start, nvf, a1, s) == root_spec(q2, start, nvf, a2, s),
    ensures
        forall|k: int| start <= k < q1.len() ==> (#[trigger] q1[k]).value == q2[k].value, // [C04,C05:lemma-binding-same-root-implies-same-queried-values]
        forall|t: int| s <= t < s + n_consumed(q1, start, nvf, a1, s) ==> #[trigger] a1[t] == a2[t], // [C04:lemma-binding-same-root-implies-same-authentication-nodes]
    decreases (a1.len() - s), (q1.len() - start)
{
    let c1 = q1[start as int]; let c2 = q2[start as int];
    assert(c1.index == c2.index && c1.depth == c2.depth);
    if c1.index == 1 {
        assert(start + 1 == q1.len());
    } else {
        let parent = c1.index / 2;
        let friendly = nvf >= c1.depth;
        let pdepth = fsub(c1.depth, 1);
        if c1.index % 2 == 0 && start + 1 != q1.len() && fadd(c1.index, 1) == q1[start as int + 1].index {
            let n1 = q1[start as int + 1]; let n2 = q2[start as int + 1];
            assert(n1.index == n2.index);
            let p1 = QD { index: parent, value: node_hash(c1.value, n1.value, friendly), depth: pdepth };
            let p2 = QD { index: parent, value: node_hash(c2.value, n2.value, friendly), depth: pdepth };
            let r1 = q1.push(p1); let r2 = q2.push(p2);
            assert(same_shape(r1, r2, start + 2)) by {
                assert forall|k: int| start + 2 <= k < r1.len() implies (#[trigger] r1[k]).index == r2[k].index && r1[k].depth == r2[k].depth by {
                    if k < q1.len() { assert(r1[k] == q1[k] && r2[k] == q2[k]); }
                }
            }
            lemma_binding(r1, r2, start + 2, nvf, a1, a2, s);
            assert(r1[q1.len() as int].value == r2[q1.len() as int].value);
            assert(c1.value == c2.value && n1.value == n2.value);
            assert forall|k: int| start <= k < q1.len() implies (#[trigger] q1[k]).value == q2[k].value by {
                if k >= start + 2 { assert(r1[k] == q1[k] && r2[k] == q2[k]); }
            }
        } else {
            let x1 = a1[s as int]; let x2 = a2[s as int];
            let h1 = if c1.index % 2 == 0 { node_hash(c1.value, x1, friendly) } else { node_hash(x1, c1.value, friendly) };
            let h2 = if c1.index % 2 == 0 { node_hash(c2.value, x2, friendly) } else { node_hash(x2, c2.value, friendly) };
            let r1 = q1.push(QD { index: parent, value: h1, depth: pdepth }); let r2 = q2.push(QD { index: parent, value: h2, depth: pdepth });
            assert(same_shape(r1, r2, start + 1)) by {
                assert forall|k: int| start + 1 <= k < r1.len() implies (#[trigger] r1[k]).index == r2[k].index && r1[k].depth == r2[k].depth by {
                    if k < q1.len() { assert(r1[k] == q1[k] && r2[k] == q2[k]); }
                }
            }
            lemma_binding(r1, r2, start + 1, nvf, a1, a2, s + 1);
            assert(r1[q1.len() as int].value == r2[q1.len() as int].value);
            assert(c1.value == c2.value && x1 == x2);
            assert forall|k: int| start <= k < q1.len() implies (#[trigger] q1[k]).value == q2[k].value by {
                if k >= start + 1 { assert(r1[k] == q1[k] && r2[k] == q2[k]); }
            }
        }
    }
}

/// non-vacuity of the hypotheses on a two-leaf tree opened at both leaves, and at one leaf with its sibling
proof fn sanity_shapes(v2: nat, v3: nat)
{
    assert(1nat + 1 < P && 3nat + 1 < P) by(compute_only);
    assert(fadd(2, 1) == 3) by(compute_only);
    assert(fsub(1, 1) == 0) by(compute_only);
    let q = seq![QD { index: 2, value: v2, depth: 1 }, QD { index: 3, value: v3, depth: 1 }];
    let e = Seq::<nat>::empty();
    let q2 = q.push(QD { index: 1, value: node_hash(v2, v3, 0nat >= 1nat), depth: 0 });
    assert(step_next(q, 0, 0, e, 0) == Some((q2, 2nat, 0nat)));
    assert(reads_all(q2, 2, 0, e, 0));
    assert(reads_all(q, 0, 0, e, 0));
    assert(root_spec(q2, 2, 0, e, 0) == Some(node_hash(v2, v3, false)));
    assert(root_spec(q, 0, 0, e, 0) == Some(node_hash(v2, v3, false)));
    // one leaf (index 3) with its sibling as authentication node
    let p = seq![QD { index: 3, value: v3, depth: 1 }];
    let a = seq![v2];
    let p2 = p.push(QD { index: 1, value: node_hash(v2, v3, false), depth: 0 });
    assert(3nat % 2 == 1 && 3nat / 2 == 1) by(compute_only);
    assert(step_next(p, 0, 0, a, 0) == Some((p2, 1nat, 1nat)));
    assert(reads_all(p2, 1, 0, a, 1));
    assert(reads_all(p, 0, 0, a, 0));
    assert(root_spec(p2, 1, 0, a, 1) == Some(node_hash(v2, v3, false)));
    assert(root_spec(p, 0, 0, a, 0) == Some(node_hash(v2, v3, false)));
    assert(n_consumed(p2, 1, 0, a, 1) == 0);
    assert(n_consumed(p, 0, 0, a, 0) == 1);
}
} // verus!
} // mod merkle_lemmas
