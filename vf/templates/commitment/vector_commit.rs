pub mod commit {
use vstd::prelude::*;
use crate::prelude::*;
use crate::swiftness_transcript::transcript::*;
use super::{config::Config, types::Commitment};
verus! {
broadcast use crate::prelude::group_felt;
//@repo crates/commitment/src/vector/commit.rs fn vector_commit props=C01,C02,C08
pub fn vector_commit(
    transcript: &mut Transcript,
    unsent_commitment: Felt,
    config: Config,
) -> (r: Commitment)
    ensures
        final(transcript).digest@ == ts_absorb1(old(transcript).digest@, unsent_commitment@), // [C01,C02,C08:commitment-root-absorbed]
        final(transcript).counter@ == 0,
        r.commitment_hash == unsent_commitment, r.config == config, // [C01,C02,C08,C18:commitment-keeps-root-and-config]
{
    transcript.read_felt_from_prover(&unsent_commitment);
    Commitment { commitment_hash: unsent_commitment, config }
}
//@end
} // verus!
} // mod commit
