pub mod commit {
use vstd::prelude::*;
use crate::prelude::*;
use crate::swiftness_transcript::transcript::*;
use super::{config::Config, types::Commitment};
use crate::swiftness_commitment::vector::commit::vector_commit;
verus! {
broadcast use crate::prelude::group_felt;
//@repo crates/commitment/src/table/commit.rs fn table_commit props=C01,C02,C08
pub fn table_commit(
    transcript: &mut Transcript,
    unsent_commitment: Felt,
    config: Config,
) -> (r: Commitment)
    ensures
        final(transcript).digest@ == ts_absorb1(old(transcript).digest@, unsent_commitment@), // [C01,C02,C08:table-root-absorbed]
        final(transcript).counter@ == 0,
        r.config == config, r.vector_commitment.config == config.vector, r.vector_commitment.commitment_hash == unsent_commitment, // [C01,C02,C08,C18:table-commitment-keeps-root-and-config]
{
    let vector_commitment = vector_commit(transcript, unsent_commitment, config.vector.clone());
    Commitment { config, vector_commitment }
}
//@end
} // verus!
} // mod commit
