pub mod decommit {
use vstd::prelude::*;
use crate::prelude::*;
use crate::hashes::*;
use crate::hoist::*;
use crate::lemmas::*;
use super::types::{Commitment, Query, QueryWithDepth, Witness};
verus! {
broadcast use crate::prelude::group_felt;
//@verbatim crates/commitment/src/vector/decommit.rs enum Error

// ---------------------------------------------------------------------------------------------
// SPEC (property C04): masked hash of two 32-byte big-endian children, chosen by the build features
//@iffeature keccak_160_lsb
pub open spec fn masked_hash(x: nat, y: nat) -> nat { be_nat(keccak256(be32(x) + be32(y)).subrange(12, 32)) % P }
//@iffeature keccak_248_lsb
pub open spec fn masked_hash(x: nat, y: nat) -> nat { be_nat(keccak256(be32(x) + be32(y)).subrange(1, 32)) % P }
//@iffeature blake2s_160_lsb
pub open spec fn masked_hash(x: nat, y: nat) -> nat { be_nat(blake2s256(be32(x) + be32(y)).subrange(12, 32)) % P }
//@iffeature blake2s_248_lsb
pub open spec fn masked_hash(x: nat, y: nat) -> nat { be_nat(blake2s256(be32(x) + be32(y)).subrange(1, 32)) % P }

pub open spec fn node_hash(x: nat, y: nat, friendly: bool) -> nat {
    if friendly { poseidon2(x, y) } else { masked_hash(x, y) }
}

/// queue entry (heap index, value, depth) as mathematical values
pub struct QD { pub index: nat, pub value: nat, pub depth: nat }
pub open spec fn qd_view(q: QueryWithDepth) -> QD { QD { index: q.index@, value: q.value@, depth: q.depth@ } }
pub open spec fn queue_view(s: Seq<QueryWithDepth>) -> Seq<QD> { s.map_values(|q: QueryWithDepth| qd_view(q)) }

/// The work-list walk of the statement: entries are consumed from `start`; an entry with heap index 1 is
/// the root; an even entry whose right neighbour is next in the queue is merged with it; any other entry
/// consumes one authentication node (left or right by parity); parents are appended to the queue.
/// `None` = a needed entry / authentication node is missing.
pub open spec fn root_spec(queue: Seq<QD>, start: nat, nvf: nat, auth: Seq<nat>, auth_start: nat) -> Option<nat>
    decreases (auth.len() - auth_start), (queue.len() - start)
{
    if start >= queue.len() { None } else {
        let cur = queue[start as int];
        if cur.index == 1 { Some(cur.value) } else {
            let parent = cur.index / 2;
            let friendly = nvf >= cur.depth;
            let pdepth = fsub(cur.depth, 1);
            if cur.index % 2 == 0 && start + 1 != queue.len() && fadd(cur.index, 1) == queue[start as int + 1].index {
                root_spec(queue.push(QD { index: parent, value: node_hash(cur.value, queue[start as int + 1].value, friendly), depth: pdepth }),
                          start + 2, nvf, auth, auth_start)
            } else if auth_start >= auth.len() { None } else {
                let h = if cur.index % 2 == 0 { node_hash(cur.value, auth[auth_start as int], friendly) }
                        else { node_hash(auth[auth_start as int], cur.value, friendly) };
                root_spec(queue.push(QD { index: parent, value: h, depth: pdepth }), start + 1, nvf, auth, auth_start + 1)
            }
        }
    }
}

/// (index, value) pairs of a query list
pub open spec fn query_pairs(queries: Seq<Query>) -> Seq<(nat, nat)> { queries.map_values(|q: Query| (q.index@, q.value@)) }
/// queries shifted to heap indices (index + 2^height), all at depth `height`
pub open spec fn shifted(queries: Seq<(nat, nat)>, height: nat) -> Seq<QD> {
    queries.map_values(|q: (nat, nat)| QD { index: fadd(q.0, pow_mod(2, height)), value: q.1, depth: height })
}
/// what decommitment computes for (config, queries, witness)
pub open spec fn decommit_root(c: &Commitment, queries: Seq<(nat, nat)>, auth: Seq<nat>) -> Option<nat> {
    root_spec(shifted(queries, c.config.height@), 0, c.config.n_verifier_friendly_commitment_layers@, auth, 0)
}

//@repo crates/commitment/src/vector/decommit.rs fn vector_commitment_decommit props=C01,C02,C04,C05,C07 rules=H_slice_map_collect
pub fn vector_commitment_decommit(
    commitment: Commitment,
    queries: &[Query],
    witness: Witness,
) -> (r: Result<(), Error>)
    ensures
        r.is_ok() <==> decommit_root(&commitment, query_pairs(queries@), fv(witness.authentications@)) == Some(commitment.commitment_hash@), // [C01,C02,C04,C05,C07:decommit-ok-iff-walk-yields-committed-root]
{
    let shift = Felt::TWO.pow_felt(&commitment.config.height);
    // Shifts the query indices by shift=2**height, to convert index representation to heap-like.
    let shifted_queries: Vec<QueryWithDepth> = crate::hoist::slice_map(queries, |q/*+*/: &Query/*-*/| /*+*/-> (o: QueryWithDepth)
            ensures o.index@ == fadd(q.index@, shift@), o.value == q.value, o.depth == commitment.config.height
        {/*-*/ QueryWithDepth {
            index: q.index + shift,
            value: q.value,
            depth: commitment.config.height,
        } /*+*/}/*-*/);
    proof {
        let a = queue_view(shifted_queries@);
        let b = shifted(query_pairs(queries@), commitment.config.height@);
        assert(a.len() == b.len());
        assert forall|i: int| 0 <= i < a.len() implies a[i] == b[i] by {
            assert(a[i] == qd_view(shifted_queries@[i]));
            assert(query_pairs(queries@)[i] == (queries@[i].index@, queries@[i].value@));
            assert(b[i] == QD { index: fadd(queries@[i].index@, pow_mod(2, commitment.config.height@)), value: queries@[i].value@, depth: commitment.config.height@ });
        }
        assert(a =~= b);
    }

    let expected_commitment = compute_root_from_queries(
        shifted_queries,
        0,
        commitment.config.n_verifier_friendly_commitment_layers,
        witness.authentications,
        0,
    )?;

    if commitment.commitment_hash != expected_commitment {
        return Err(Error::MisMatch {
            value: commitment.commitment_hash,
            expected: expected_commitment,
        });
    }

    Ok(())
}
//@end

//@repo crates/commitment/src/vector/decommit.rs fn compute_root_from_queries props=C01,C02,C04,C05
pub fn compute_root_from_queries(
    mut queue: Vec<QueryWithDepth>,
    start: usize,
    n_verifier_friendly_layers: Felt,
    authentications: Vec<Felt>,
    auth_start: usize,
) -> (r: Result<Felt, Error>)
    ensures
        r.is_ok() <==> root_spec(queue_view(queue@), start as nat, n_verifier_friendly_layers@, fv(authentications@), auth_start as nat) is Some, // [C01,C02,C04,C05:walk-errs-exactly-when-a-needed-node-is-missing]
        r.is_ok() ==> root_spec(queue_view(queue@), start as nat, n_verifier_friendly_layers@, fv(authentications@), auth_start as nat) == Some(r->Ok_0@), // [C01,C02,C04,C05:walk-computes-root-spec]
    decreases authentications@.len() - auth_start, queue@.len() - start, // [C17:walk-consumes-a-node-or-two-entries-per-step]
{
    let current = queue.get(start).ok_or(Error::IndexInvalid)?;
    assert(start < queue.len() <= usize::MAX);
    if current.index == Felt::ONE {
        // root
        Ok(current.value)
    } else {
        let (parent, bit) = current.index.div_rem(&NonZeroFelt::TWO);
        let is_verifier_friendly = n_verifier_friendly_layers >= current.depth;
        let ghost q0 = queue_view(queue@);
        let hash = if bit == Felt::ZERO {
            if start + 1 != queue.len() {
                let next = queue.get(start + 1).ok_or(Error::IndexInvalid)?;
                if current.index + 1 == next.index {
                    // next is a sibling of current
                    let hash =
                        hash_friendly_unfriendly(current.value, next.value, is_verifier_friendly);
                    queue.push(QueryWithDepth {
                        index: parent,
                        value: hash,
                        depth: current.depth - 1,
                    });
                    proof { assert(queue_view(queue@) =~= q0.push(QD { index: parent@, value: hash@, depth: fsub(q0[start as int].depth, 1) })); }
                    return compute_root_from_queries(
                        queue,
                        start + 2,
                        n_verifier_friendly_layers,
                        authentications,
                        auth_start,
                    );
                }
            }
            hash_friendly_unfriendly(
                current.value,
                *authentications.get(auth_start).ok_or(Error::IndexInvalid)?,
                is_verifier_friendly,
            )
        } else {
            hash_friendly_unfriendly(
                *authentications.get(auth_start).ok_or(Error::IndexInvalid)?,
                current.value,
                is_verifier_friendly,
            )
        };
        assert(auth_start < authentications.len() <= usize::MAX);
        queue.push(QueryWithDepth { index: parent, value: hash, depth: current.depth - 1 });
        proof { assert(queue_view(queue@) =~= q0.push(QD { index: parent@, value: hash@, depth: fsub(q0[start as int].depth, 1) })); }
        compute_root_from_queries(
            queue,
            start + 1,
            n_verifier_friendly_layers,
            authentications,
            auth_start + 1,
        )
    }
}
//@end

//@repo crates/commitment/src/vector/decommit.rs fn hash_friendly_unfriendly props=C01,C02,C04,C05
fn hash_friendly_unfriendly(x: Felt, y: Felt, is_verifier_friendly: bool) -> (r: Felt)
    ensures
        r@ == node_hash(x@, y@, is_verifier_friendly), // [C01,C02,C04,C05:node-hash-poseidon-or-masked-digest-of-be32-children]
{
    if is_verifier_friendly {
        poseidon_hash(x, y)
    } else {
        // keccak hash
        let mut hash_data = Vec::with_capacity(64);
        hash_data.extend_x(&x.to_bytes_be());
        hash_data.extend_x(&y.to_bytes_be());

        let mut hasher = {
            {
                Keccak256::new()
            }
        };
        hasher.update(&hash_data);

        {
            {
                Felt::from_bytes_be_slice(&hasher.finalize().as_slice()[12..32])
            }
        }
    }
}
//@end
} // verus!
} // mod decommit
