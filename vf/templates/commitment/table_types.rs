pub mod types {
use vstd::prelude::*;
use crate::prelude::*;
use super::config::Config;
use crate::swiftness_commitment::vector;
verus! {
//@verbatim crates/commitment/src/table/types.rs struct Commitment,Decommitment,Witness
//@clone Commitment,Decommitment,Witness
} // verus!
} // mod types
