pub mod config {
use vstd::prelude::*;
use crate::prelude::*;
use crate::swiftness_commitment::vector;
verus! {
//@verbatim crates/commitment/src/table/config.rs struct Config
//@clone Config
} // verus!
} // mod config
