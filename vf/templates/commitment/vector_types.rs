pub mod types {
use vstd::prelude::*;
use crate::prelude::*;
use super::config::Config;
verus! {
//@verbatim crates/commitment/src/vector/types.rs struct Commitment,Query,QueryWithDepth,Witness
//@clone Commitment,Witness
} // verus!
} // mod types
