pub mod last_layer {
use vstd::prelude::*;
use crate::prelude::*;
use crate::hoist::*;
use crate::lemmas::*;
use super::layer::FriLayerQuery;
verus! {
broadcast use crate::prelude::group_felt;
//@verbatim crates/fri/src/last_layer.rs enum Error

/// polynomial with coefficients c (a0, a1, ...) evaluated at x:  a0 + x*(a1 + x*(...))
pub open spec fn poly_eval(c: Seq<nat>, x: nat) -> nat decreases c.len() {
    if c.len() == 0 { 0 } else { fadd(fmul(poly_eval(c.skip(1), x), x), c[0]) }
}
/// the last-layer check for one query: poly(1/x_inv) == y
pub open spec fn last_layer_query_ok(q: FriLayerQuery, c: Seq<nat>) -> bool {
    poly_eval(c, fdiv(1, q.x_inv_value@)) == q.y_value@
}

//@repo crates/fri/src/last_layer.rs fn verify_last_layer props=C01,C02,C06,C07 rules=R3_iter_mut_readonly
pub fn verify_last_layer(
    mut quries: Vec<FriLayerQuery>,
    coefficients: Vec<Felt>,
) -> (r: Result<(), Error>)
    requires
        forall|i: int| 0 <= i < quries@.len() ==> (#[trigger] quries@[i]).x_inv_value@ != 0, // [C18:last-layer-inverse-points-nonzero-else-division-panics]
    ensures
        r.is_ok() <==> forall|i: int| 0 <= i < quries@.len() ==> last_layer_query_ok(#[trigger] quries@[i], fv(coefficients@)), // [C01,C02,C06,C07:last-layer-ok-iff-polynomial-matches-every-query]
{
    for query in /*+*/it: /*-*/quries.iter()
        invariant
            forall|i: int| 0 <= i < quries@.len() ==> (#[trigger] quries@[i]).x_inv_value@ != 0,
            forall|i: int| 0 <= i < it.index@ ==> last_layer_query_ok(#[trigger] quries@[i], fv(coefficients@)),
    {
        assert(*query == quries@[it.index@]);
        let horner_eval_result = horner_eval(
            &coefficients,
            Felt::ONE.field_div(&NonZeroFelt::from_felt_unchecked(query.x_inv_value)),
        );
        if horner_eval_result != query.y_value {
            assert(!last_layer_query_ok(quries@[it.index@], fv(coefficients@)));
            return Err(Error::QueryMismatch { expected: query.y_value, got: horner_eval_result });
        }
    }
    Ok(())
}
//@end

//@repo crates/fri/src/last_layer.rs fn horner_eval props=C01,C02,C06,C07 rules=R2_rev_loop
fn horner_eval(coefs: &[Felt], point: Felt) -> (r: Felt)
    ensures r@ == poly_eval(fv(coefs@), point@), // [C01,C02,C06,C07:horner-evaluates-the-coefficient-polynomial]
{
    let mut result = Felt::from(0);
    { let mut i__ = coefs.len(); while i__ > 0
        invariant
            i__ <= coefs@.len(),
            result@ == poly_eval(fv(coefs@).skip(i__ as int), point@),
        decreases i__, // [C17:horner-linear-in-coefficient-count]
    { i__ -= 1; let coef = &coefs[i__]; {
        proof {
            let s = fv(coefs@).skip(i__ as int);
            assert(s.skip(1) =~= fv(coefs@).skip(i__ as int + 1));
            assert(s[0] == coefs@[i__ as int]@);
        }
        result = result * point + coef;
    } } }
    proof { assert(fv(coefs@).skip(0) =~= fv(coefs@)); }
    result
}
//@end
} // verus!
} // mod last_layer
