pub mod types {
use vstd::prelude::*;
use crate::prelude::*;
use crate::swiftness_commitment;
use super::config::Config;
verus! {
//@verbatim crates/fri/src/types.rs struct UnsentCommitment,Commitment,Decommitment,Witness,LayerWitness
//@clone UnsentCommitment,Witness,LayerWitness
} // verus!
} // mod types
