pub mod fri {
use vstd::prelude::*;
use vstd::arithmetic::div_mod::*;
use crate::prelude::*;
use crate::hashes::*;
use crate::hoist::*;
use crate::lemmas::*;
use crate::swiftness_transcript::transcript::*;
use crate::swiftness_commitment;
use crate::swiftness_commitment::table::{
    commit::table_commit,
    config::Config as TableCommitmentConfig,
    decommit::{table_decommit, table_decommit_ok},
    types::{Commitment as TableCommitment, Decommitment as TableDecommitment},
};
use crate::swiftness_fri::{
    config::Config as FriConfig,
    first_layer::{gather_first_layer_queries, first_layer_ok, INV3, lemma_inv3},
    group::get_fri_group,
    last_layer::{verify_last_layer, last_layer_query_ok},
    layer::*,
    types::{
        self, Commitment as FriCommitment, Decommitment as FriDecommitment, LayerWitness, Witness,
    },
};
verus! {
broadcast use crate::prelude::group_felt;
//@verbatim crates/fri/src/fri.rs enum Error
//@from_variants crates/fri/src/fri.rs Error

// ---------------------------------------------------------------------------------------------
// SPEC: the FRI commitment rounds on the transcript (property C08): absorb root i, squeeze eval point i
pub open spec fn rounds_digest(d: nat, roots: Seq<nat>, n: nat) -> nat decreases n {
    if n == 0 { d } else { ts_absorb1(rounds_digest(d, roots, (n - 1) as nat), roots[n - 1]) }
}
pub open spec fn round_eval_point(d: nat, roots: Seq<nat>, i: nat) -> nat { ts_squeeze(rounds_digest(d, roots, i + 1), 0) }

//@repo crates/fri/src/fri.rs fn fri_commit_rounds props=C01,C02,C08
pub fn fri_commit_rounds(
    transcript: &mut Transcript,
    n_layers: Felt,
    configs: Vec<TableCommitmentConfig>,
    unsent_commitments: &[Felt],
) -> (r: (Vec<TableCommitment>, Vec<Felt>))
    requires
        n_layers@ <= 14,                              // [C17:fri-rounds-bounded-by-validated-layer-count]
        configs@.len() >= n_layers@,                  // [C18:fri-rounds-one-config-per-inner-layer]
        unsent_commitments@.len() >= n_layers@,       // [C18:fri-rounds-one-root-per-inner-layer]
    ensures
        r.0@.len() == n_layers@ && r.1@.len() == n_layers@, // [C01,C02,C08,C18:fri-rounds-one-commitment-and-one-eval-point-per-inner-layer]
        forall|i: int| 0 <= i < n_layers@ ==> (#[trigger] r.0@[i]).config == configs@[i] && r.0@[i].vector_commitment.config == configs@[i].vector
            && r.0@[i].vector_commitment.commitment_hash == unsent_commitments@[i], // [C01,C02,C08:fri-round-i-commits-root-i-under-config-i]
        forall|i: int| 0 <= i < n_layers@ ==> (#[trigger] r.1@[i])@ == round_eval_point(old(transcript).digest@, fv(unsent_commitments@), i as nat), // [C01,C02,C08:fri-eval-point-i-squeezed-right-after-root-i]
        final(transcript).digest@ == rounds_digest(old(transcript).digest@, fv(unsent_commitments@), n_layers@), // [C08:fri-rounds-absorb-exactly-the-inner-roots-in-order]
        n_layers@ > 0 ==> final(transcript).counter@ == 1,
        n_layers@ == 0 ==> final(transcript).counter@ == old(transcript).counter@,
{
    let mut commitments = Vec::<TableCommitment>::new();
    let mut eval_points = Vec::<Felt>::new();

    let len: usize = n_layers.to_biguint().try_into().unwrap();
    let ghost d0 = transcript.digest@;
    let ghost roots = fv(unsent_commitments@);
    for i in 0..len
        invariant
            len as nat == n_layers@, len <= 14,
            configs@.len() >= len, unsent_commitments@.len() >= len, roots == fv(unsent_commitments@),
            commitments@.len() == i && eval_points@.len() == i,
            forall|j: int| 0 <= j < i ==> (#[trigger] commitments@[j]).config == configs@[j] && commitments@[j].vector_commitment.config == configs@[j].vector
                && commitments@[j].vector_commitment.commitment_hash == unsent_commitments@[j],
            forall|j: int| 0 <= j < i ==> (#[trigger] eval_points@[j])@ == round_eval_point(d0, roots, j as nat),
            transcript.digest@ == rounds_digest(d0, roots, i as nat),
            i > 0 ==> transcript.counter@ == 1,
            i == 0 ==> transcript.counter@ == old(transcript).counter@ && transcript.digest@ == d0,
    {
        // Read commitments.
        commitments.push(table_commit(
            transcript,
            *unsent_commitments.get(i).unwrap(),
            configs.get(i).unwrap().clone(),
        ));
        // Send the next eval_points.
        eval_points.push(transcript.random_felt_to_prover());
        proof {
            assert(roots[i as int] == unsent_commitments@[i as int]@);
            assert(rounds_digest(d0, roots, (i + 1) as nat) == ts_absorb1(rounds_digest(d0, roots, i as nat), roots[i as int]));
            assert(fadd(0, 1) == 1) by { lemma_small_mod(1, P); }
        }
    }

    (commitments, eval_points)
}
//@end

/// what fri_commit relies on (established by fri config validation and fri_validate_unsent_commitment)
pub open spec fn fri_commit_pre(u: &types::UnsentCommitment, c: &FriConfig) -> bool {
    &&& 2 <= c.n_layers@ <= 15
    &&& c.log_last_layer_degree_bound@ <= 15
    &&& c.inner_layers@.len() + 1 >= c.n_layers@
    &&& u.inner_layers@.len() + 1 >= c.n_layers@
    &&& u.last_layer_coefficients@.len() == pow2(c.log_last_layer_degree_bound@)
}

//@repo crates/fri/src/fri.rs fn fri_validate_unsent_commitment props=C02,C06,C07,C18
pub fn fri_validate_unsent_commitment(
    unsent_commitment: &types::UnsentCommitment,
    config: &FriConfig,
) -> (r: Result<(), Error>)
    requires
        2 <= config.n_layers@ <= 15, config.log_last_layer_degree_bound@ <= 15, config.inner_layers@.len() + 1 >= config.n_layers@, // [C18:fri-shape-check-after-config-validation]
    ensures
        r.is_ok() <==> (unsent_commitment.inner_layers@.len() + 1 >= config.n_layers@
            && unsent_commitment.last_layer_coefficients@.len() == pow2(config.log_last_layer_degree_bound@)), // [C02,C06,C07,C18:fri-unsent-commitment-has-a-root-per-inner-layer-and-exactly-2^bound-coefficients]
        r.is_ok() ==> fri_commit_pre(unsent_commitment, config),
{
    proof {
        lemma_pow_mod_two(config.log_last_layer_degree_bound@);
        lemma_pow2_251_lt_p();
        lemma_pow2_mono(config.log_last_layer_degree_bound@, 16);
        lemma_small_mod(unsent_commitment.inner_layers.len() as nat + 1, P);
    }
    if Felt::from(unsent_commitment.inner_layers.len()) + Felt::ONE < config.n_layers {
        return Err(Error::InvalidValue);
    }
    if Felt::TWO.pow_felt(&config.log_last_layer_degree_bound)
        != Felt::from(unsent_commitment.last_layer_coefficients.len())
    {
        return Err(Error::InvalidValue);
    }
    Ok(())
}
//@end

//@repo crates/fri/src/fri.rs fn fri_commit props=C01,C02,C07,C08
pub fn fri_commit(
    transcript: &mut Transcript,
    unsent_commitment: types::UnsentCommitment,
    config: FriConfig,
) -> (r: FriCommitment)
    requires
        fri_commit_pre(&unsent_commitment, &config), // [C18:fri-commit-shape-validated-before-call]
    ensures
        r.config == config,                                                                 // [C01,C02,C08,C18:fri-commitment-keeps-config]
        r.inner_layers@.len() == config.n_layers@ - 1 && r.eval_points@.len() == config.n_layers@ - 1, // [C01,C02,C08,C18:fri-one-commitment-and-eval-point-per-inner-layer]
        forall|i: int| 0 <= i < config.n_layers@ - 1 ==> (#[trigger] r.inner_layers@[i]).config == config.inner_layers@[i]
            && r.inner_layers@[i].vector_commitment.config == config.inner_layers@[i].vector
            && r.inner_layers@[i].vector_commitment.commitment_hash == unsent_commitment.inner_layers@[i], // [C01,C02,C08:fri-inner-layer-i-commits-root-i]
        forall|i: int| 0 <= i < config.n_layers@ - 1 ==> (#[trigger] r.eval_points@[i])@ == round_eval_point(old(transcript).digest@, fv(unsent_commitment.inner_layers@), i as nat), // [C01,C02,C08:fri-eval-points-follow-their-roots]
        r.last_layer_coefficients == unsent_commitment.last_layer_coefficients,             // [C01,C02,C07,C08,C18:fri-commitment-keeps-last-layer-coefficients]
        final(transcript).digest@ == ts_absorb_vec(rounds_digest(old(transcript).digest@, fv(unsent_commitment.inner_layers@), (config.n_layers@ - 1) as nat), felts_view(unsent_commitment.last_layer_coefficients@)), // [C01,C02,C08:fri-last-layer-coefficients-absorbed-after-all-rounds]
        final(transcript).counter@ == 0,
{
    assert!(config.n_layers > Felt::from(0), "Invalid value");
    proof { lemma_small_mod((config.n_layers@ - 1) as nat, P); }

    let inner_layers = config.inner_layers.clone();
    let (commitments, eval_points) = fri_commit_rounds(
        transcript,
        config.n_layers - 1,
        inner_layers,
        &unsent_commitment.inner_layers,
    );

    // Read last layer coefficients.
    transcript.read_felt_vector_from_prover(&unsent_commitment.last_layer_coefficients);
    let coefficients = unsent_commitment.last_layer_coefficients;

    proof {
        lemma_pow_mod_two(config.log_last_layer_degree_bound@);
        lemma_pow2_251_lt_p();
        lemma_pow2_mono(config.log_last_layer_degree_bound@, 16);
    }
    assert!(
        Felt::TWO.pow_felt(&config.log_last_layer_degree_bound) == coefficients.len().into(),
        "Invalid value"
    );

    FriCommitment {
        config,
        inner_layers: commitments,
        eval_points,
        last_layer_coefficients: coefficients,
    }
}
//@end

// ---------------------------------------------------------------------------------------------
// SPEC (property C07): every inner layer is folded AND its coset rows decommit against the layer's root
pub open spec fn layers_walk(q: Seq<FQ>, i: nat, n: nat, commitments: Seq<TableCommitment>, witnesses: Seq<LayerWitness>,
                             evals: Seq<Felt>, steps: Seq<Felt>, group: Seq<nat>) -> Option<Seq<FQ>>
    decreases n - i
{
    if i >= n { Some(q) }
    else if i >= witnesses.len() { None }
    else {
        match layer_spec(q, fv(witnesses[i as int].leaves@), pow_mod(2, steps[i as int]@), group, evals[i as int]@) {
            None => None,
            Some(o) =>
                if table_decommit_ok(&commitments[i as int], o.indices, o.yvals, fv(witnesses[i as int].table_witness.vector.authentications@)) {
                    layers_walk(o.next, i + 1, n, commitments, witnesses, evals, steps, group)
                } else { None },
        }
    }
}

pub proof fn lemma_layers_walk_shape(q: Seq<FQ>, i: nat, n: nat, commitments: Seq<TableCommitment>, witnesses: Seq<LayerWitness>,
                             evals: Seq<Felt>, steps: Seq<Felt>, group: Seq<nat>)
    requires
        i <= n, steps.len() >= n, forall|k: int| 0 <= k < n ==> 1 <= (#[trigger] steps[k])@ <= 4,
        all_xinv_nonzero(q), group_nonzero(group),
    ensures
        layers_walk(q, i, n, commitments, witnesses, evals, steps, group) is Some ==> ({
            let o = layers_walk(q, i, n, commitments, witnesses, evals, steps, group)->Some_0;
            o.len() <= q.len() && all_xinv_nonzero(o)
        }),
    decreases n - i
{
    if i < n && i < witnesses.len() {
        let cs = pow_mod(2, steps[i as int]@);
        lemma_cs(steps[i as int]@);
        let ls = layer_spec(q, fv(witnesses[i as int].leaves@), cs, group, evals[i as int]@);
        if ls is Some {
            let o = ls->Some_0;
            lemma_layer_walk_shape(q, fv(witnesses[i as int].leaves@), cs, group, evals[i as int]@,
                LayerOut { next: Seq::empty(), indices: Seq::empty(), yvals: Seq::empty(), w: Seq::empty() });
            lemma_layers_walk_shape(o.next, i + 1, n, commitments, witnesses, evals, steps, group);
        }
    }
}
pub proof fn lemma_cs(step: nat)
    requires 1 <= step <= 4
    ensures cs_ok(pow_mod(2, step))
{
    lemma_pow_mod_two(step);
    assert(pow2(1) == 2 && pow2(2) == 4 && pow2(3) == 8 && pow2(4) == 16) by(compute_only);
}

//@repo crates/fri/src/fri.rs fn fri_verify_layers props=C01,C02,C06,C07
#[verifier::loop_isolation(false)]
fn fri_verify_layers(
    fri_group: Vec<Felt>,
    n_layers: Felt,
    commitment: Vec<TableCommitment>,
    layer_witness: Vec<LayerWitness>,
    eval_points: Vec<Felt>,
    step_sizes: Vec<Felt>,
    mut queries: Vec<FriLayerQuery>,
) -> (r: Result<Vec<FriLayerQuery>, Error>)
    requires
        n_layers@ <= 14,                                  // [C17:fri-layer-loop-bounded-by-validated-layer-count]
        group_nonzero(fv(fri_group@)),                    // [C18:fri-group-has-16-nonzero-elements]
        commitment@.len() >= n_layers@ && eval_points@.len() >= n_layers@ && step_sizes@.len() >= n_layers@, // [C18:fri-layers-one-commitment-eval-point-step-per-layer]
        forall|k: int| 0 <= k < n_layers@ ==> 1 <= (#[trigger] step_sizes@[k])@ <= 4, // [C18:fri-steps-in-1..=4-so-coset-size-in-2..16]
        queries@.len() <= 0xffff_ffff, all_xinv_nonzero(fqs(queries@)), // [C18:fri-layer-queries-few-and-with-nonzero-inverse-points]
    ensures
        r.is_ok() <==> layers_walk(fqs(queries@), 0, n_layers@, commitment@, layer_witness@, eval_points@, step_sizes@, fv(fri_group@)) is Some, // [C01,C02,C06,C07:inner-layers-ok-iff-every-layer-folds-and-DECOMMITS-against-its-root]
        r.is_ok() ==> fqs(r->Ok_0@) == layers_walk(fqs(queries@), 0, n_layers@, commitment@, layer_witness@, eval_points@, step_sizes@, fv(fri_group@))->Some_0, // [C01,C02,C06,C07:last-layer-queries-are-the-folded-queries]
{
    hide(fadd); hide(fsub); hide(fmul); hide(fdiv);
    let len: usize = n_layers.to_biguint().try_into().unwrap();
    let ghost q_in = fqs(queries@);
    let ghost grp = fv(fri_group@);
    let ghost goal = layers_walk(q_in, 0, len as nat, commitment@, layer_witness@, eval_points@, step_sizes@, grp);

    for i in 0..len
        invariant
            len as nat == n_layers@, len <= 14, grp == fv(fri_group@), group_nonzero(grp),
            commitment@.len() >= len && eval_points@.len() >= len && step_sizes@.len() >= len,
            forall|k: int| 0 <= k < len ==> 1 <= (#[trigger] step_sizes@[k])@ <= 4,
            queries@.len() <= 0xffff_ffff, all_xinv_nonzero(fqs(queries@)),
            goal == layers_walk(q_in, 0, len as nat, commitment@, layer_witness@, eval_points@, step_sizes@, grp),
            goal == layers_walk(fqs(queries@), i as nat, len as nat, commitment@, layer_witness@, eval_points@, step_sizes@, grp),
    {
        let ghost q0 = fqs(queries@);
        proof {
            if i as nat >= layer_witness@.len() {
                assert(layers_walk(q0, i as nat, len as nat, commitment@, layer_witness@, eval_points@, step_sizes@, grp) is None);
            }
        }
        let target_layer_witness = layer_witness.get(i).ok_or(Error::InvalidValue)?;
        let mut target_layer_witness_leaves = target_layer_witness.leaves.clone();
        let target_layer_witness_table_withness = target_layer_witness.table_witness.clone();
        let target_commitment = commitment.get(i).unwrap().clone();

        // Params.
        let coset_size = Felt::TWO.pow_felt(step_sizes.get(i).unwrap());
        proof { lemma_cs(step_sizes@[i as int]@); }
        let params = FriLayerComputationParams {
            coset_size,
            fri_group: fri_group.clone(),
            eval_point: *eval_points.get(i).unwrap(),
        };
        proof {
            assert(fv(params.fri_group@) =~= grp);
            lemma_layer_walk_shape(q0, fv(target_layer_witness_leaves@), coset_size@, grp, params.eval_point@,
                LayerOut { next: Seq::empty(), indices: Seq::empty(), yvals: Seq::empty(), w: Seq::empty() });
        }

        let ghost ls = layer_spec(q0, fv(target_layer_witness_leaves@), coset_size@, grp, params.eval_point@);
        proof {
            assert(target_layer_witness_leaves@ == layer_witness@[i as int].leaves@);
            assert(layers_walk(q0, i as nat, len as nat, commitment@, layer_witness@, eval_points@, step_sizes@, grp) ==
                (match ls {
                    None => None,
                    Some(o) => if table_decommit_ok(&commitment@[i as int], o.indices, o.yvals, fv(layer_witness@[i as int].table_witness.vector.authentications@)) {
                        layers_walk(o.next, i as nat + 1, len as nat, commitment@, layer_witness@, eval_points@, step_sizes@, grp) } else { None },
                }));
        }
        // Compute next layer queries.
        let (next_queries, verify_indices, verify_y_values) =
            compute_next_layer(&mut queries, &mut target_layer_witness_leaves, params)
                .map_err(/*+*/|e: FriError| -> (o: Error) ensures o == Error::Layer(e) { /*-*/Error::Layer/*+*/(e) }/*-*/)?;

        // Table decommitment.
        table_decommit(
            target_commitment,
            &verify_indices,
            TableDecommitment { values: verify_y_values },
            target_layer_witness_table_withness,
        )?;

        queries = next_queries;
    }

    Ok(queries)
}
//@end

/// the first-layer queries: (index, value, inverse of the point translated to the homogeneous group)
pub open spec fn first_seq(queries: Seq<Felt>, values: Seq<nat>, points: Seq<nat>) -> Seq<FQ> {
    Seq::new(queries.len(), |i: int| FQ { index: queries[i]@, y: values[i], xinv: fdiv(1, fmul(points[i], INV3)) })
}
pub proof fn lemma_inverse_nonzero(x: nat)
    requires 0 < x < P
    ensures 0 < fdiv(1, x) < P
{
    broadcast use crate::prelude::axiom_finv;
    lemma_small_mod(finv(x), P);
    assert(fdiv(1, x) == finv(x)) by { assert(1 * finv(x) == finv(x)); }
    if finv(x) == 0 { assert(x * 0 == 0); lemma_small_mod(0, P); }
}
pub proof fn lemma_first_layer_nonzero(queries: Seq<Felt>, values: Seq<nat>, points: Seq<nat>)
    requires points.len() == queries.len(), values.len() == queries.len(), forall|i: int| 0 <= i < points.len() ==> 0 < #[trigger] points[i] < P
    ensures all_xinv_nonzero(first_seq(queries, values, points))
{
    broadcast use {crate::prelude::axiom_field_integral, crate::prelude::group_felt};
    lemma_inv3();
    let first = first_seq(queries, values, points);
    assert forall|i: int| 0 <= i < first.len() implies 0 < (#[trigger] first[i]).xinv < P && first[i].index < P by {
        let x = fmul(points[i], INV3);
        assert(points[i] != 0);
        assert(x != 0);
        lemma_inverse_nonzero(x);
    }
}

/// ORACLE (property C07): what a successful fri_verify means
pub open spec fn fri_verify_ok(queries: Seq<Felt>, c: &FriCommitment, values: Seq<nat>, points: Seq<nat>, w: &Witness, group: Seq<nat>) -> bool {
    let n = (c.config.n_layers@ - 1) as nat;
    let first = first_seq(queries, values, points);
    &&& queries.len() == values.len()
    &&& layers_walk(first, 0, n, c.inner_layers@, w.layers@, c.eval_points@, c.config.fri_step_sizes@.subrange(1, c.config.fri_step_sizes@.len() as int), group) is Some
    &&& c.last_layer_coefficients@.len() == pow2(c.config.log_last_layer_degree_bound@)
    &&& ({
        let last = layers_walk(first, 0, n, c.inner_layers@, w.layers@, c.eval_points@, c.config.fri_step_sizes@.subrange(1, c.config.fri_step_sizes@.len() as int), group)->Some_0;
        forall|i: int| 0 <= i < last.len() ==> poly_ok(#[trigger] last[i], fv(c.last_layer_coefficients@))
    })
}
pub open spec fn poly_ok(q: FQ, c: Seq<nat>) -> bool { crate::swiftness_fri::last_layer::poly_eval(c, fdiv(1, q.xinv)) == q.y }

/// interior precondition of fri_verify: the commitment comes from fri_commit under a validated config, the points from queries_to_points
pub open spec fn fri_verify_pre(queries: Seq<Felt>, c: &FriCommitment, points: Seq<Felt>) -> bool {
    &&& 2 <= c.config.n_layers@ <= 15
    &&& c.config.log_last_layer_degree_bound@ <= 15
    &&& c.config.fri_step_sizes@.len() >= c.config.n_layers@
    &&& (forall|k: int| 1 <= k < c.config.n_layers@ ==> 1 <= (#[trigger] c.config.fri_step_sizes@[k])@ <= 4)
    &&& c.inner_layers@.len() >= c.config.n_layers@ - 1
    &&& c.eval_points@.len() >= c.config.n_layers@ - 1
    &&& points.len() == queries.len()
    &&& (forall|i: int| 0 <= i < points.len() ==> (#[trigger] points[i])@ != 0)
    &&& queries.len() <= 0xffff_ffff
}

//@repo crates/fri/src/fri.rs fn fri_verify props=C01,C02,C06,C07 rules=R1_map_err_last_layer
pub fn fri_verify(
    queries: &[Felt],
    commitment: FriCommitment,
    decommitment: FriDecommitment,
    witness: Witness,
) -> (r: Result<(), Error>)
    requires
        fri_verify_pre(queries@, &commitment, decommitment.points@), // [C18:fri-verify-called-with-commitment-from-fri-commit-and-points-from-queries]
    ensures
        r.is_ok() <==> fri_verify_ok(queries@, &commitment, fv(decommitment.values@), fv(decommitment.points@), &witness, crate::swiftness_fri::group::fri_group_values()), // [C01,C02,C06,C07:fri-ok-iff-lengths-match-every-inner-layer-decommits-and-last-layer-polynomial-agrees]
{
    hide(fadd); hide(fsub); hide(fmul);
    if queries.len() != decommitment.values.len() {
        return Err(Error::InvalidLength {
            expected: queries.len(),
            actual: decommitment.values.len(),
        });
    }
    let ghost first = first_seq(queries@, fv(decommitment.values@), fv(decommitment.points@));
    proof { lemma_first_layer_nonzero(queries@, fv(decommitment.values@), fv(decommitment.points@)); }

    // Compute first FRI layer queries.
    let fri_queries = gather_first_layer_queries(queries, decommitment.values, decommitment.points);
    proof {
        assert(fqs(fri_queries@) =~= first);
    }

    // Compute fri_group.
    let fri_group = get_fri_group();
    proof { assert(fv(fri_group@) =~= crate::swiftness_fri::group::fri_group_values()); }

    // Verify inner layers.
    proof {
        assert(fsub(commitment.config.n_layers@, 1) == commitment.config.n_layers@ - 1) by {
            reveal(fsub);
            lemma_mod_multiples_vanish(1, (commitment.config.n_layers@ - 1) as int, P as int);
            lemma_small_mod((commitment.config.n_layers@ - 1) as nat, P);
        }
    }
    let ghost steps = commitment.config.fri_step_sizes@.subrange(1, commitment.config.fri_step_sizes@.len() as int);
    let last_queries = fri_verify_layers(
        fri_group,
        commitment.config.n_layers - 1,
        commitment.inner_layers,
        witness.layers,
        commitment.eval_points,
        /*+*/{ let t = /*-*/commitment.config.fri_step_sizes[1..commitment.config.fri_step_sizes.len()].to_vec()/*+*/; proof { assert(t@ =~= steps); } t }/*-*/,
        fri_queries,
    )?;
    proof {
        lemma_layers_walk_shape(first, 0, (commitment.config.n_layers@ - 1) as nat, commitment.inner_layers@, witness.layers@, commitment.eval_points@, steps, crate::swiftness_fri::group::fri_group_values());
        lemma_pow_mod_two(commitment.config.log_last_layer_degree_bound@);
        lemma_pow2_251_lt_p();
        lemma_pow2_mono(commitment.config.log_last_layer_degree_bound@, 16);
        lemma_small_mod(commitment.last_layer_coefficients.len() as nat, P);
    }

    if Felt::from(commitment.last_layer_coefficients.len())
        != Felt::TWO.pow_felt(&commitment.config.log_last_layer_degree_bound)
    {
        return Err(Error::InvalidValue);
    };

    proof {
        assert forall|i: int| 0 <= i < last_queries@.len() implies (#[trigger] last_queries@[i]).x_inv_value@ != 0 by {
            assert(fqs(last_queries@)[i].xinv == last_queries@[i].x_inv_value@);
        }
    }
    /*+*/let ghost lastq = last_queries@;
    ({ let res = /*-*/verify_last_layer(last_queries, commitment.last_layer_coefficients)/*+*/;
       proof {
           if res.is_err() {
               let k = choose|k: int| 0 <= k < lastq.len() && !last_layer_query_ok(#[trigger] lastq[k], fv(commitment.last_layer_coefficients@));
               assert(!poly_ok(fqs(lastq)[k], fv(commitment.last_layer_coefficients@)));
           }
       }
       res })/*-*/
        .map_err(|_e/*+*/: crate::swiftness_fri::last_layer::Error/*-*/| /*+*/-> (o: Error) ensures o == Error::LastLayerVerificationError {/*-*/ Error::LastLayerVerificationError /*+*/}/*-*/)?;
    proof {
        assert(fqs(lastq).len() == lastq.len());
        assert forall|i: int| 0 <= i < lastq.len() implies poly_ok(#[trigger] fqs(lastq)[i], fv(commitment.last_layer_coefficients@)) by {
            assert(last_layer_query_ok(lastq[i], fv(commitment.last_layer_coefficients@)));
        }
    }
    Ok(())
}
//@end
} // verus!
} // mod fri
