pub mod first_layer {
use vstd::prelude::*;
use crate::prelude::*;
use crate::hoist::*;
use crate::lemmas::*;
use super::layer::FriLayerQuery;
verus! {
broadcast use crate::prelude::group_felt;
//@hexconst crates/fri/src/first_layer.rs FIELD_GENERATOR_INVERSE vis=
pub spec const INV3: nat = 0x2AAAAAAAAAAAAB0555555555555555555555555555555555555555555555556nat;
pub proof fn lemma_inv3() ensures fmul(3, INV3) == 1, 0 < INV3 < P { assert(fmul(3, INV3) == 1 && 0 < INV3 < P) by(compute_only); }

/// first-layer query i: (index, value, 1 / (x_i / 3))
pub open spec fn first_layer_ok(r: Seq<FriLayerQuery>, queries: Seq<Felt>, evals: Seq<Felt>, xs: Seq<Felt>) -> bool {
    r.len() == queries.len() && forall|i: int| 0 <= i < queries.len() ==>
        (#[trigger] r[i]).index == queries[i] && r[i].y_value == evals[i] && r[i].x_inv_value@ == fdiv(1, fmul(xs[i]@, INV3))
}

//@repo crates/fri/src/first_layer.rs fn gather_first_layer_queries props=C01,C02,C06,C07 rules=R2_enumerate_queries
pub fn gather_first_layer_queries(
    queries: &[Felt],
    evaluations: Vec<Felt>,
    x_values: Vec<Felt>,
) -> (r: Vec<FriLayerQuery>)
    requires
        evaluations@.len() == queries@.len(),  // [C18:first-layer-one-evaluation-per-query]
        x_values@.len() == queries@.len(),     // [C18:first-layer-one-point-per-query]
        forall|i: int| 0 <= i < x_values@.len() ==> (#[trigger] x_values@[i])@ != 0, // [C18:first-layer-points-nonzero-else-division-panics]
    ensures
        first_layer_ok(r@, queries@, evaluations@, x_values@), // [C01,C02,C06,C07:first-layer-queries-carry-index-value-and-inverse-point]
{
    let mut fri_queries/*+*/: Vec<FriLayerQuery>/*-*/ = Vec::new();

    for index in 0..queries.len()
        invariant
            evaluations@.len() == queries@.len(), x_values@.len() == queries@.len(),
            forall|i: int| 0 <= i < x_values@.len() ==> (#[trigger] x_values@[i])@ != 0,
            fri_queries@.len() == index,
            forall|i: int| 0 <= i < index ==> (#[trigger] fri_queries@[i]).index == queries@[i] && fri_queries@[i].y_value == evaluations@[i]
                && fri_queries@[i].x_inv_value@ == fdiv(1, fmul(x_values@[i]@, INV3)),
    { let query = &queries[index];
        // Translate the coset to the homogenous group to have simple FRI equations.
        let shifted_x_value = x_values.get(index).unwrap() * FIELD_GENERATOR_INVERSE;
        proof {
            lemma_inv3();
            broadcast use crate::prelude::axiom_field_integral;
            assert(fmul(x_values@[index as int]@, INV3) != 0);
        }

        fri_queries.push(FriLayerQuery {
            index: *query,
            y_value: *evaluations.get(index).unwrap(),
            x_inv_value: Felt::ONE.field_div(&NonZeroFelt::from_felt_unchecked(shifted_x_value)),
        });
    }

    fri_queries
}
//@end
} // verus!
} // mod first_layer
