pub mod layer {
use vstd::prelude::*;
use vstd::arithmetic::div_mod::*;
use crate::prelude::*;
use crate::hoist::*;
use crate::lemmas::*;
use crate::swiftness_fri::formula::{fri_formula, fold_spec, log2_cs};
verus! {
broadcast use crate::prelude::group_felt;
//@verbatim crates/fri/src/layer.rs struct FriLayerComputationParams,FriLayerQuery
//@verbatim crates/fri/src/layer.rs enum FriError
//@from_variants crates/fri/src/layer.rs FriError

// ---------------------------------------------------------------------------------------------
// SPEC (properties C06/C07): gathering a coset and computing the next layer, as mathematical walks
pub struct FQ { pub index: nat, pub y: nat, pub xinv: nat }
pub open spec fn fq(q: FriLayerQuery) -> FQ { FQ { index: q.index@, y: q.y_value@, xinv: q.x_inv_value@ } }
pub open spec fn fqs(s: Seq<FriLayerQuery>) -> Seq<FQ> { s.map_values(|q: FriLayerQuery| fq(q)) }

pub struct CosetOut { pub elems: Seq<nat>, pub xinv: nat, pub q: Seq<FQ>, pub w: Seq<nat> }
/// positions i..n of the coset starting at heap position `start`: the value comes from the next query when its
/// index is start+i (then x_inv of the coset start is query.x_inv * group[i]), otherwise from the next sibling leaf.
pub open spec fn coset_walk(q: Seq<FQ>, w: Seq<nat>, start: nat, group: Seq<nat>, i: nat, n: nat, elems: Seq<nat>, xinv: nat) -> Option<CosetOut>
    decreases n - i
{
    if i >= n { Some(CosetOut { elems, xinv, q, w }) }
    else if q.len() > 0 && q[0].index == fadd(start, i) {
        coset_walk(q.skip(1), w, start, group, i + 1, n, elems.push(q[0].y), fmul(q[0].xinv, group[i as int]))
    } else if w.len() == 0 { None }
    else { coset_walk(q, w.skip(1), start, group, i + 1, n, elems.push(w[0]), xinv) }
}

pub struct LayerOut { pub next: Seq<FQ>, pub indices: Seq<nat>, pub yvals: Seq<nat>, pub w: Seq<nat> }
/// one FRI layer: repeatedly take the coset of the first remaining query (index / coset_size), gather it, fold it.
pub open spec fn layer_walk(q: Seq<FQ>, w: Seq<nat>, cs: nat, group: Seq<nat>, e: nat, acc: LayerOut) -> Option<LayerOut>
    decreases q.len()
{
    if q.len() == 0 { Some(LayerOut { next: acc.next, indices: acc.indices, yvals: acc.yvals, w: w }) }
    else {
        let ci = q[0].index / cs;
        match coset_walk(q, w, fmul(ci, cs), group, 0, cs, Seq::<nat>::empty(), 0) {
            None => None,
            Some(o) => if o.q.len() >= q.len() { None } else {
                layer_walk(o.q, o.w, cs, group, e, LayerOut {
                    next: acc.next.push(FQ { index: ci, y: fold_spec(log2_cs(cs), o.elems, e, o.xinv), xinv: pow_mod(o.xinv, cs) }),
                    indices: acc.indices.push(ci),
                    yvals: acc.yvals + o.elems,
                    w: acc.w })
            },
        }
    }
}
pub open spec fn layer_spec(q: Seq<FQ>, w: Seq<nat>, cs: nat, group: Seq<nat>, e: nat) -> Option<LayerOut> {
    layer_walk(q, w, cs, group, e, LayerOut { next: Seq::empty(), indices: Seq::empty(), yvals: Seq::empty(), w: Seq::empty() })
}

pub open spec fn cs_ok(cs: nat) -> bool { cs == 2 || cs == 4 || cs == 8 || cs == 16 }

// ---- lemmas about the walks (verified) ------------------------------------------------------------
pub proof fn lemma_coset_walk_shape(q: Seq<FQ>, w: Seq<nat>, start: nat, group: Seq<nat>, i: nat, n: nat, elems: Seq<nat>, xinv: nat)
    requires i <= n
    ensures
        coset_walk(q, w, start, group, i, n, elems, xinv) is Some ==> ({
            let o = coset_walk(q, w, start, group, i, n, elems, xinv)->Some_0;
            &&& o.elems.len() == elems.len() + (n - i)
            &&& o.q.len() <= q.len()
            &&& o.w.len() <= w.len()
            &&& o.q.len() + o.w.len() + (n - i) == q.len() + w.len()
        }),
    decreases n - i
{
    if i < n {
        if q.len() > 0 && q[0].index == fadd(start, i) {
            lemma_coset_walk_shape(q.skip(1), w, start, group, i + 1, n, elems.push(q[0].y), fmul(q[0].xinv, group[i as int]));
        } else if w.len() > 0 {
            lemma_coset_walk_shape(q, w.skip(1), start, group, i + 1, n, elems.push(w[0]), xinv);
        }
    }
}

/// the coset of the first query always consumes that query (so a layer terminates and x_inv is set)
pub proof fn lemma_coset_consumes(q: Seq<FQ>, w: Seq<nat>, cs: nat, group: Seq<nat>, i: nat, elems: Seq<nat>, xinv: nat)
    requires
        q.len() > 0, cs_ok(cs), q[0].index < P,
        i <= q[0].index % cs,
    ensures
        coset_walk(q, w, fmul(q[0].index / cs, cs), group, i, cs, elems, xinv) is Some ==>
            coset_walk(q, w, fmul(q[0].index / cs, cs), group, i, cs, elems, xinv)->Some_0.q.len() < q.len(),
    decreases cs - i
{
    let q0 = q[0].index;
    let ci = q0 / cs;
    let off = q0 % cs;
    lemma_fundamental_div_mod(q0 as int, cs as int);
    assert(ci * cs == cs * ci) by(nonlinear_arith);
    assert(ci * cs <= q0);
    lemma_small_mod(ci * cs, P);
    let start = fmul(ci, cs);
    assert(start == ci * cs);
    assert(off < cs) by { lemma_mod_bound(q0 as int, cs as int); }
    lemma_small_mod(start + i, P);
    if i == off {
        assert(q0 == fadd(start, i));
        lemma_coset_walk_shape(q.skip(1), w, start, group, i + 1, cs, elems.push(q[0].y), fmul(q[0].xinv, group[i as int]));
    } else {
        assert(q0 != fadd(start, i));
        if w.len() > 0 {
            lemma_coset_consumes(q, w.skip(1), cs, group, i + 1, elems.push(w[0]), xinv);
        }
    }
}

pub open spec fn all_xinv_nonzero(q: Seq<FQ>) -> bool { forall|i: int| 0 <= i < q.len() ==> 0 < (#[trigger] q[i]).xinv < P && q[i].index < P }
pub open spec fn group_nonzero(g: Seq<nat>) -> bool { g.len() >= 16 && forall|i: int| 0 <= i < 16 ==> 0 < #[trigger] g[i] < P }

pub proof fn lemma_pow_nonzero(b: nat, e: nat)
    requires 0 < b < P
    ensures 0 < pow_mod(b, e) < P
    decreases e
{
    broadcast use crate::prelude::axiom_field_integral;
    if e == 0 { assert(1nat % P == 1) by(compute_only); } else { lemma_pow_nonzero(b, (e - 1) as nat); assert(pow_mod(b, e) == fmul(b, pow_mod(b, (e - 1) as nat))); }
}

/// once a query has been consumed the coset's x_inv is a product of non-zero elements
pub proof fn lemma_coset_walk_xinv(q: Seq<FQ>, w: Seq<nat>, start: nat, group: Seq<nat>, i: nat, n: nat, elems: Seq<nat>, xinv: nat)
    requires i <= n <= 16, all_xinv_nonzero(q), group_nonzero(group), 0 < xinv < P
    ensures
        coset_walk(q, w, start, group, i, n, elems, xinv) is Some ==> ({
            let o = coset_walk(q, w, start, group, i, n, elems, xinv)->Some_0;
            0 < o.xinv < P && all_xinv_nonzero(o.q)
        }),
    decreases n - i
{
    broadcast use crate::prelude::axiom_field_integral;
    if i < n {
        if q.len() > 0 && q[0].index == fadd(start, i) {
            assert(all_xinv_nonzero(q.skip(1))) by { assert forall|k: int| 0 <= k < q.skip(1).len() implies 0 < (#[trigger] q.skip(1)[k]).xinv < P && q.skip(1)[k].index < P by { assert(q.skip(1)[k] == q[k + 1]); } }
            lemma_coset_walk_xinv(q.skip(1), w, start, group, i + 1, n, elems.push(q[0].y), fmul(q[0].xinv, group[i as int]));
        } else if w.len() > 0 {
            lemma_coset_walk_xinv(q, w.skip(1), start, group, i + 1, n, elems.push(w[0]), xinv);
        }
    }
}

/// the coset of the first query: x_inv is non-zero at the end (a query is consumed, see lemma_coset_consumes)
pub proof fn lemma_coset_first_xinv(q: Seq<FQ>, w: Seq<nat>, cs: nat, group: Seq<nat>, i: nat, elems: Seq<nat>, xinv: nat)
    requires
        q.len() > 0, cs_ok(cs), all_xinv_nonzero(q), group_nonzero(group),
        i <= q[0].index % cs,
    ensures
        coset_walk(q, w, fmul(q[0].index / cs, cs), group, i, cs, elems, xinv) is Some ==> ({
            let o = coset_walk(q, w, fmul(q[0].index / cs, cs), group, i, cs, elems, xinv)->Some_0;
            0 < o.xinv < P && all_xinv_nonzero(o.q)
        }),
    decreases cs - i
{
    broadcast use crate::prelude::axiom_field_integral;
    let q0 = q[0].index;
    let ci = q0 / cs;
    let off = q0 % cs;
    lemma_fundamental_div_mod(q0 as int, cs as int);
    assert(ci * cs == cs * ci) by(nonlinear_arith);
    lemma_small_mod(ci * cs, P);
    let start = fmul(ci, cs);
    assert(off < cs) by { lemma_mod_bound(q0 as int, cs as int); }
    lemma_small_mod(start + i, P);
    if i == off {
        assert(q0 == fadd(start, i));
        assert(all_xinv_nonzero(q.skip(1))) by { assert forall|k: int| 0 <= k < q.skip(1).len() implies 0 < (#[trigger] q.skip(1)[k]).xinv < P && q.skip(1)[k].index < P by { assert(q.skip(1)[k] == q[k + 1]); } }
        lemma_coset_walk_xinv(q.skip(1), w, start, group, i + 1, cs, elems.push(q[0].y), fmul(q[0].xinv, group[i as int]));
    } else {
        assert(q0 != fadd(start, i));
        if w.len() > 0 {
            lemma_coset_first_xinv(q, w.skip(1), cs, group, i + 1, elems.push(w[0]), xinv);
        }
    }
}

/// a layer maps n queries to at most n queries / n cosets, every new x_inv is non-zero and every index shrinks
pub proof fn lemma_layer_walk_shape(q: Seq<FQ>, w: Seq<nat>, cs: nat, group: Seq<nat>, e: nat, acc: LayerOut)
    requires cs_ok(cs), all_xinv_nonzero(q), group_nonzero(group), all_xinv_nonzero(acc.next), acc.indices.len() == acc.next.len(), acc.yvals.len() == cs * acc.next.len()
    ensures
        layer_walk(q, w, cs, group, e, acc) is Some ==> ({
            let o = layer_walk(q, w, cs, group, e, acc)->Some_0;
            &&& o.next.len() <= acc.next.len() + q.len()
            &&& o.indices.len() == o.next.len()
            &&& o.yvals.len() == cs * o.next.len()
            &&& all_xinv_nonzero(o.next)
        }),
    decreases q.len()
{
    if q.len() > 0 {
        let ci = q[0].index / cs;
        let cw = coset_walk(q, w, fmul(ci, cs), group, 0, cs, Seq::<nat>::empty(), 0);
        if cw is Some {
            let o = cw->Some_0;
            if o.q.len() < q.len() {
                lemma_coset_first_xinv(q, w, cs, group, 0, Seq::<nat>::empty(), 0);
                lemma_coset_walk_shape(q, w, fmul(ci, cs), group, 0, cs, Seq::<nat>::empty(), 0);
                lemma_pow_nonzero(o.xinv, cs);
                let nq = FQ { index: ci, y: fold_spec(log2_cs(cs), o.elems, e, o.xinv), xinv: pow_mod(o.xinv, cs) };
                let acc2 = LayerOut { next: acc.next.push(nq), indices: acc.indices.push(ci), yvals: acc.yvals + o.elems, w: acc.w };
                assert(ci <= q[0].index) by(nonlinear_arith) requires ci == q[0].index / cs, cs >= 1;
                assert(all_xinv_nonzero(acc2.next)) by {
                    assert forall|k: int| 0 <= k < acc2.next.len() implies 0 < (#[trigger] acc2.next[k]).xinv < P && acc2.next[k].index < P by {
                        if k < acc.next.len() { assert(acc2.next[k] == acc.next[k]); } else { assert(acc2.next[k] == nq); }
                    }
                }
                assert(cs * (acc.next.len() + 1) == cs * acc.next.len() + cs) by(nonlinear_arith);
                lemma_layer_walk_shape(o.q, o.w, cs, group, e, acc2);
            }
        }
    }
}

//@repo crates/fri/src/layer.rs fn compute_coset_elements props=C01,C02,C06,C07 rules=H_drain_query,H_drain_witness
#[verifier::loop_isolation(false)]
pub fn compute_coset_elements(
    queries: &mut Vec<FriLayerQuery>,
    sibling_witness: &mut Vec<Felt>,
    coset_size: Felt,
    coset_start_index: Felt,
    fri_group: &[Felt],
) -> (r: Result<(Vec<Felt>, Felt), FriError>)
    requires
        cs_ok(coset_size@),             // [C18:coset-size-in-2-4-8-16]
        fri_group@.len() >= 16,         // [C18:fri-group-has-16-elements]
    ensures
        r.is_ok() <==> coset_walk(fqs(old(queries)@), fv(old(sibling_witness)@), coset_start_index@, fv(fri_group@), 0, coset_size@, Seq::<nat>::empty(), 0) is Some, // [C01,C02,C06,C07,C18:coset-errs-exactly-when-sibling-leaves-run-out]
        r.is_ok() ==> ({
            let o = coset_walk(fqs(old(queries)@), fv(old(sibling_witness)@), coset_start_index@, fv(fri_group@), 0, coset_size@, Seq::<nat>::empty(), 0)->Some_0;
            &&& fv(r->Ok_0.0@) == o.elems
            &&& r->Ok_0.1@ == o.xinv
            &&& fqs(final(queries)@) == o.q
            &&& fv(final(sibling_witness)@) == o.w
        }), // [C06,C07:coset-elements-from-matching-queries-else-sibling-leaves-in-order]
{
    let mut coset_elements/*+*/: Vec<Felt>/*-*/ = Vec::new();
    let mut coset_x_inv = Felt::ZERO;
    let ghost csf = coset_size@;
    let coset_size: usize = coset_size.to_biguint().try_into().unwrap();
    assert(coset_size as nat == csf);
    let ghost goal = coset_walk(fqs(old(queries)@), fv(old(sibling_witness)@), coset_start_index@, fv(fri_group@), 0, coset_size as nat, Seq::<nat>::empty(), 0);
    proof { assert(fv(coset_elements@) =~= Seq::<nat>::empty()); }
    for index in 0..coset_size
        invariant
            cs_ok(coset_size as nat), fri_group@.len() >= 16, coset_size as nat == csf,
            goal == coset_walk(fqs(old(queries)@), fv(old(sibling_witness)@), coset_start_index@, fv(fri_group@), 0, csf, Seq::<nat>::empty(), 0),
            goal == coset_walk(fqs(queries@), fv(sibling_witness@), coset_start_index@, fv(fri_group@), index as nat, coset_size as nat, fv(coset_elements@), coset_x_inv@),
    {
        let ghost q_before = fqs(queries@);
        let ghost w_before = fv(sibling_witness@);
        let ghost e_before = fv(coset_elements@);
        let q = queries.first();
        proof { lemma_small_mod(index as nat, P); }
        if q.is_some() && q.unwrap().index == coset_start_index + Felt::from(index) {
            let query: Vec<FriLayerQuery> = crate::hoist::drain_first(queries);
            coset_elements.push(query[0].y_value);
            coset_x_inv = query[0].x_inv_value * fri_group.get(index).unwrap();
            proof {
                assert(fqs(queries@) =~= q_before.skip(1));
                assert(fv(coset_elements@) =~= e_before.push(q_before[0].y));
            }
        } else {
            proof {
                assert(!(q_before.len() > 0 && q_before[0].index == fadd(coset_start_index@, index as nat)));
                assert(w_before.len() == sibling_witness@.len());
            }
            if sibling_witness.is_empty() {
                proof {
                    assert(w_before.len() == 0);
                    assert((index as nat) < (coset_size as nat));
                    assert(coset_walk(q_before, w_before, coset_start_index@, fv(fri_group@), index as nat, coset_size as nat, e_before, coset_x_inv@) is None);
                }
                return Err(FriError::WitnessTooShort);
            }
            let withness: Vec<Felt> = crate::hoist::drain_first(sibling_witness);
            coset_elements.push(withness[0]);
            proof {
                assert(fv(sibling_witness@) =~= w_before.skip(1));
                assert(fv(coset_elements@) =~= e_before.push(w_before[0]));
            }
        }
    }

    Ok((coset_elements, coset_x_inv))
}
//@end

//@repo crates/fri/src/layer.rs fn compute_next_layer props=C01,C02,C06,C07 rules=H_extend_iter_coset
pub fn compute_next_layer(
    queries: &mut Vec<FriLayerQuery>,
    sibling_witness: &mut Vec<Felt>,
    params: FriLayerComputationParams,
) -> (r: Result<(Vec<FriLayerQuery>, Vec<Felt>, Vec<Felt>), FriError>)
    requires
        cs_ok(params.coset_size@),           // [C18:coset-size-in-2-4-8-16]
        params.fri_group@.len() >= 16,       // [C18:fri-group-has-16-elements]
    ensures
        r.is_ok() <==> layer_spec(fqs(old(queries)@), fv(old(sibling_witness)@), params.coset_size@, fv(params.fri_group@), params.eval_point@) is Some, // [C01,C02,C06,C07,C18:layer-errs-exactly-when-sibling-leaves-run-out]
        r.is_ok() ==> ({
            let o = layer_spec(fqs(old(queries)@), fv(old(sibling_witness)@), params.coset_size@, fv(params.fri_group@), params.eval_point@)->Some_0;
            &&& fqs(r->Ok_0.0@) == o.next
            &&& fv(r->Ok_0.1@) == o.indices
            &&& fv(r->Ok_0.2@) == o.yvals
            &&& fv(final(sibling_witness)@) == o.w
            &&& final(queries)@.len() == 0
        }), // [C01,C02,C06,C07:next-layer-is-fold-of-each-gathered-coset-and-all-coset-rows-are-returned-for-decommitment]
{
    let mut next_queries/*+*/: Vec<FriLayerQuery>/*-*/ = Vec::new();
    let mut verify_indices/*+*/: Vec<Felt>/*-*/ = Vec::new();
    let mut verify_y_values/*+*/: Vec<Felt>/*-*/ = Vec::new();

    let coset_size = params.coset_size;
    let ghost goal = layer_spec(fqs(old(queries)@), fv(old(sibling_witness)@), params.coset_size@, fv(params.fri_group@), params.eval_point@);
    let ghost cs = params.coset_size@;
    let ghost grp = fv(params.fri_group@);
    proof {
        assert(fqs(next_queries@) =~= Seq::<FQ>::empty());
        assert(fv(verify_indices@) =~= Seq::<nat>::empty());
        assert(fv(verify_y_values@) =~= Seq::<nat>::empty());
    }

    while !queries.is_empty()
        invariant
            cs_ok(cs), cs == params.coset_size@, coset_size == params.coset_size, grp == fv(params.fri_group@), params.fri_group@.len() >= 16,
            goal == layer_spec(fqs(old(queries)@), fv(old(sibling_witness)@), params.coset_size@, fv(params.fri_group@), params.eval_point@),
            goal == layer_walk(fqs(queries@), fv(sibling_witness@), cs, grp, params.eval_point@,
                LayerOut { next: fqs(next_queries@), indices: fv(verify_indices@), yvals: fv(verify_y_values@), w: Seq::empty() }),
        decreases queries@.len(), // [C17:layer-loop-consumes-a-query-per-iteration]
    {
        let ghost q0 = fqs(queries@);
        let ghost w0 = fv(sibling_witness@);
        let ghost acc0 = LayerOut { next: fqs(next_queries@), indices: fv(verify_indices@), yvals: fv(verify_y_values@), w: Seq::<nat>::empty() };
        let query_uint = queries.first().unwrap().index.to_biguint();
        let coset_size_uint = coset_size.to_biguint();
        let coset_index =
            Felt::from_bytes_be_slice((query_uint / coset_size_uint).to_bytes_be().as_slice());
        proof {
            let qi = q0[0].index;
            assert(qi / cs <= qi) by(nonlinear_arith) requires cs >= 1;
            lemma_small_mod(qi / cs, P);
            assert(coset_index@ == qi / cs);
            lemma_coset_consumes(q0, w0, cs, grp, 0, Seq::<nat>::empty(), 0);
            lemma_coset_walk_shape(q0, w0, fmul(qi / cs, cs), grp, 0, cs, Seq::<nat>::empty(), 0);
        }

        verify_indices.push(coset_index);

        proof {
            assert(fv(verify_indices@) =~= acc0.indices.push(q0[0].index / cs));
            lemma_fundamental_div_mod(q0[0].index as int, cs as int);
            assert((q0[0].index / cs) * cs == cs * (q0[0].index / cs)) by(nonlinear_arith);
            lemma_small_mod((q0[0].index / cs) * cs, P);
        }
        let (coset_elements, coset_x_inv) = compute_coset_elements(
            queries,
            sibling_witness,
            coset_size,
            coset_index * coset_size,
            &params.fri_group,
        )?;
        crate::hoist::extend_from_iter(&mut verify_y_values, &coset_elements);

        let fri_formula_res =
            fri_formula(coset_elements, params.eval_point, coset_x_inv, coset_size)?;

        let next_x_inv = coset_x_inv.pow_felt(&params.coset_size);
        next_queries.push(FriLayerQuery {
            index: coset_index,
            y_value: fri_formula_res,
            x_inv_value: next_x_inv,
        });
        proof {
            let o = coset_walk(q0, w0, fmul(q0[0].index / cs, cs), grp, 0, cs, Seq::<nat>::empty(), 0)->Some_0;
            assert(fqs(next_queries@) =~= acc0.next.push(FQ { index: q0[0].index / cs, y: fold_spec(log2_cs(cs), o.elems, params.eval_point@, o.xinv), xinv: pow_mod(o.xinv, cs) }));
            assert(fv(verify_indices@) =~= acc0.indices.push(q0[0].index / cs));
            assert(fv(verify_y_values@) =~= acc0.yvals + o.elems);
        }
    }

    Ok((next_queries, verify_indices, verify_y_values))
}
//@end
} // verus!
} // mod layer
