pub mod layer {
use vstd::prelude::*;
use crate::prelude::*;
use crate::hoist::*;
use crate::lemmas::*;
verus! {
broadcast use crate::prelude::group_felt;
//@verbatim crates/fri/src/layer.rs struct FriLayerComputationParams,FriLayerQuery
} // verus!
} // mod layer
