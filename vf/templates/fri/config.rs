pub mod config {
use vstd::prelude::*;
use crate::prelude::*;
use crate::lemmas::*;
use crate::swiftness_commitment;
verus! {
broadcast use crate::prelude::group_felt;
//@verbatim crates/fri/src/config.rs const MAX_LAST_LAYER_LOG_DEGREE_BOUND,MAX_FRI_LAYERS,MIN_FRI_LAYERS,MAX_FRI_STEP,MIN_FRI_STEP
//@verbatim crates/fri/src/config.rs struct Config
//@verbatim crates/fri/src/config.rs enum Error
//@clone Config
//@from_variants crates/fri/src/config.rs Error

/// sum of fri_step_sizes[1..n)  (integer reading)
pub open spec fn steps_sum(s: Seq<Felt>, n: int) -> int decreases n {
    if n <= 1 { 0 } else { steps_sum(s, n - 1) + s[n - 1]@ as int }
}
/// layer i (1 <= i < n_layers): step in 1..=4, 2^step columns, telescoping height, global friendly-layer count
pub open spec fn layer_ok(c: &Config, i: int, nvf: nat) -> bool {
    1 <= c.fri_step_sizes@[i]@ <= 4
    && c.inner_layers@[i - 1].n_columns@ == pow2(c.fri_step_sizes@[i]@)
    && c.inner_layers@[i - 1].vector.height@ as int == c.log_input_size@ as int - steps_sum(c.fri_step_sizes@, i + 1)
    && c.inner_layers@[i - 1].vector.n_verifier_friendly_commitment_layers@ == nvf
}
/// same, with the height equation as the code computes it (mod P)
pub open spec fn layer_ok_mod(c: &Config, i: int, nvf: nat) -> bool {
    1 <= c.fri_step_sizes@[i]@ <= 4
    && c.inner_layers@[i - 1].n_columns@ == pow2(c.fri_step_sizes@[i]@)
    && c.inner_layers@[i - 1].vector.height@ as int == ((c.log_input_size@ + P) as int - steps_sum(c.fri_step_sizes@, i + 1)) % (P as int)
    && c.inner_layers@[i - 1].vector.n_verifier_friendly_commitment_layers@ == nvf
}
pub proof fn steps_sum_mono(s: Seq<Felt>, a: int, b: int)
    requires 1 <= a <= b
    ensures 0 <= steps_sum(s, a) <= steps_sum(s, b)
    decreases b
{
    if a < b { steps_sum_mono(s, a, b - 1); } else if a > 1 { steps_sum_mono(s, a - 1, a - 1); }
}
/// ORACLE (property C11, FRI part), every number read as a non-negative integer:
pub open spec fn fri_ok(c: &Config, lc: nat, nvf: nat) -> bool {
    &&& 2 <= c.n_layers@ <= 15
    &&& c.log_last_layer_degree_bound@ <= 15
    &&& c.fri_step_sizes@.len() >= c.n_layers@
    &&& c.inner_layers@.len() + 1 >= c.n_layers@
    &&& c.fri_step_sizes@[0]@ == 0
    &&& (forall|i: int| 1 <= i < c.n_layers@ ==> layer_ok(c, i, nvf))
    &&& c.log_input_size@ as int == steps_sum(c.fri_step_sizes@, c.n_layers@ as int) + c.log_last_layer_degree_bound@ + lc
}

impl Config {
//@repo crates/fri/src/config.rs fn Config::validate props=C01,C02,C11
    pub fn validate(
        &self,
        log_n_cosets: Felt,
        n_verifier_friendly_commitment_layers: Felt,
    ) -> (r: Result<Felt, Error>)
        requires
            1 <= log_n_cosets@ <= 16, // [C01,C02,C11:fri-validate-called-with-bounded-blowup]
        ensures
            r.is_ok() <==> fri_ok(self, log_n_cosets@, n_verifier_friendly_commitment_layers@), // [C01,C02,C11,C17,C18:fri-config-ok-iff-oracle]
            r.is_ok() ==> r->Ok_0@ as int == steps_sum(self.fri_step_sizes@, self.n_layers@ as int) + self.log_last_layer_degree_bound@, // [C11:fri-returns-log-input-degree]
    {
        if self.n_layers < MIN_FRI_LAYERS.into() || self.n_layers > MAX_FRI_LAYERS.into() {
            return Err(Error::OutOfBounds { min: MIN_FRI_LAYERS, max: MAX_FRI_LAYERS });
        }
        if self.log_last_layer_degree_bound < Felt::ZERO
            || self.log_last_layer_degree_bound > MAX_LAST_LAYER_LOG_DEGREE_BOUND.into()
        {
            return Err(Error::OutOfBounds { min: 0, max: MAX_LAST_LAYER_LOG_DEGREE_BOUND });
        }
        if *self.fri_step_sizes.first().ok_or(Error::FirstFriStepInvalid)? != Felt::ZERO {
            return Err(Error::FirstFriStepInvalid);
        }

        let n_layers: usize = self.n_layers.to_bigint().try_into()?;
        if self.fri_step_sizes.len() < n_layers || self.inner_layers.len() < n_layers - 1 {
            return Err(Error::InvalidLength);
        }
        let mut sum_of_step_sizes = Felt::ZERO;
        let mut log_input_size = self.log_input_size;

        for i in 1..n_layers
            invariant
                n_layers as nat == self.n_layers@, 2 <= n_layers <= 15,
                self.fri_step_sizes@.len() >= 1, self.fri_step_sizes@[0]@ == 0,
                self.log_last_layer_degree_bound@ <= 15,
                1 <= log_n_cosets@ <= 16,
                sum_of_step_sizes@ as int == steps_sum(self.fri_step_sizes@, i as int),
                sum_of_step_sizes@ <= 4 * (i - 1),
                log_input_size@ == ((self.log_input_size@ + P) - sum_of_step_sizes@) as nat % P,
                self.fri_step_sizes@.len() >= n_layers, self.inner_layers@.len() + 1 >= n_layers,
                forall|j: int| 1 <= j < i ==> layer_ok_mod(self, j, n_verifier_friendly_commitment_layers@),
        {
            let fri_step = self.fri_step_sizes[i];
            let table_commitment = &self.inner_layers[i - 1];
            log_input_size -= fri_step;
            sum_of_step_sizes += fri_step;

            if fri_step < MIN_FRI_STEP.into() || fri_step > MAX_FRI_STEP.into() {
                proof { assert(!layer_ok(self, i as int, n_verifier_friendly_commitment_layers@)); }
                return Err(Error::OutOfBounds { min: MIN_FRI_STEP, max: MAX_FRI_STEP });
            }
            let fri_step: u64 = fri_step.to_bigint().try_into()?;
            let expected_n_columns = Felt::from(2).pow(fri_step);
            proof { lemma_pow_mod_two(fri_step as nat); }
            if table_commitment.n_columns != expected_n_columns {
                proof { assert(!layer_ok(self, i as int, n_verifier_friendly_commitment_layers@)); }
                return Err(Error::InvalidColumnCount {
                    expected: expected_n_columns,
                    actual: table_commitment.n_columns,
                });
            }
            proof {
                assert(steps_sum(self.fri_step_sizes@, i as int + 1) == steps_sum(self.fri_step_sizes@, i as int) + self.fri_step_sizes@[i as int]@);
                steps_sum_mono(self.fri_step_sizes@, 1, i as int + 1);
            }
            /*+*/let vres = /*-*/table_commitment
                .vector
                .validate(log_input_size, n_verifier_friendly_commitment_layers)/*+*/;
            proof {
                if layer_ok(self, i as int, n_verifier_friendly_commitment_layers@) {
                    // integer reading implies the mod-P reading (0 <= size - sum, both small or size < P)
                    assert(layer_ok_mod(self, i as int, n_verifier_friendly_commitment_layers@));
                }
                if vres.is_err() { assert(!layer_ok_mod(self, i as int, n_verifier_friendly_commitment_layers@)); }
                else { assert(layer_ok_mod(self, i as int, n_verifier_friendly_commitment_layers@)); }
            }
            vres/*-*/?;
        }

        let log_expected_input_degree = sum_of_step_sizes + self.log_last_layer_degree_bound;
        if log_expected_input_degree + log_n_cosets != self.log_input_size {
            return Err(Error::LogInputSizeMismatch {
                expected: log_expected_input_degree + log_n_cosets,
                actual: self.log_input_size,
            });
        }
        proof {
            steps_sum_mono(self.fri_step_sizes@, 1, self.n_layers@ as int);
            assert forall|j: int| 1 <= j < self.n_layers@ implies #[trigger] layer_ok(self, j, n_verifier_friendly_commitment_layers@) by {
                assert(layer_ok_mod(self, j, n_verifier_friendly_commitment_layers@));
                steps_sum_mono(self.fri_step_sizes@, j + 1, self.n_layers@ as int);
                steps_sum_mono(self.fri_step_sizes@, 1, j + 1);
            }
        }
        Ok(log_expected_input_degree)
    }
//@end
}
} // verus!
} // mod config
