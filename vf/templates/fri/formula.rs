pub mod formula {
use vstd::prelude::*;
use crate::prelude::*;
use crate::hoist::*;
use crate::lemmas::*;
use crate::numth::*;
verus! {
broadcast use {crate::prelude::group_felt, crate::lemmas::group_frange};
//@hexconst crates/fri/src/formula.rs OMEGA_16,OMEGA_8,OMEGA_4 vis=
//@verbatim crates/fri/src/formula.rs enum Error
//@from_variants crates/fri/src/formula.rs Error

// ---------------------------------------------------------------------------------------------
// SPEC (property C06): one fold step and its k-fold composition
pub open spec fn fold2(f: nat, g: nat, e: nat, xi: nat) -> nat { fadd(fadd(f, g), fmul(fmul(e, xi), fsub(f, g))) }
/// inverses of the generators of the subgroups of order 4, 8, 16
pub spec const W4: nat = 0x1dafdc6d65d66b5accedf99bcd607383ad971a9537cdf25d59e99d90becc81enat;
pub spec const W8: nat = 0x446ed3ce295dda2b5ea677394813e6eab8bfbc55397aacac8e6df6f4bc9ca34nat;
pub spec const W16: nat = 0x5c3ed0c6f6ac6dd647c9ba3e4721c1eb14011ea3d174c52d7981c5b8145aa75nat;
pub open spec fn omega(k: nat) -> nat { if k == 2 { W4 } else if k == 3 { W8 } else { W16 } }
pub proof fn lemma_omega_is_inverse_generator()
    ensures fmul(W4, gen(2)) == 1, fmul(W8, gen(3)) == 1, fmul(W16, gen(4)) == 1 // [C06:omega-constants-are-inverse-generators]
{
    assert(pow2(2) == 4 && pow2(3) == 8 && pow2(4) == 16) by(compute_only);
    lemma_pow_sm(3, ((P - 1) as nat) / 4);
    lemma_pow_sm(3, ((P - 1) as nat) / 8);
    lemma_pow_sm(3, ((P - 1) as nat) / 16);
    assert((W4 * pow_sm(3, ((P - 1) as nat) / 4)) % P == 1) by(compute_only);
    assert((W8 * pow_sm(3, ((P - 1) as nat) / 8)) % P == 1) by(compute_only);
    assert((W16 * pow_sm(3, ((P - 1) as nat) / 16)) % P == 1) by(compute_only);
}
/// x^(2^j) by repeated squaring
pub open spec fn sqn(x: nat, j: nat) -> nat decreases j { if j == 0 { x } else { fmul(sqn(x, (j - 1) as nat), sqn(x, (j - 1) as nat)) } }
/// folding 2^k values (k = 1..4): halves folded with x_inv and x_inv*omega(k), combined with e^(2^(k-1)), x_inv^(2^(k-1))
pub open spec fn fold_spec(k: nat, v: Seq<nat>, e: nat, xi: nat) -> nat decreases k {
    if k <= 1 { fold2(v[0], v[1], e, xi) } else {
        let half = pow2((k - 1) as nat) as int;
        fold2(fold_spec((k - 1) as nat, v.subrange(0, half), e, xi),
              fold_spec((k - 1) as nat, v.subrange(half, 2 * half), e, fmul(xi, omega(k))),
              sqn(e, (k - 1) as nat), sqn(xi, (k - 1) as nat))
    }
}

//@repo crates/fri/src/formula.rs fn fri_formula2 props=C01,C02,C06
fn fri_formula2(f_x: Felt, f_minus_x: Felt, eval_point: Felt, x_inv: Felt) -> (r: Felt)
    ensures r@ == fold2(f_x@, f_minus_x@, eval_point@, x_inv@), // [C01,C02,C06:fold2-formula]
{
    f_x + f_minus_x + eval_point * x_inv * (f_x - f_minus_x)
}
//@end

//@repo crates/fri/src/formula.rs fn fri_formula4 props=C01,C02,C06
fn fri_formula4(values: Vec<Felt>, eval_point: Felt, x_inv: Felt) -> (r: Result<Felt, Error>)
    ensures
        r.is_ok() <==> values@.len() == 4, // [C01,C02,C06,C07:fold4-needs-exactly-4-values]
        r.is_ok() ==> r->Ok_0@ == fold_spec(2, fv(values@), eval_point@, x_inv@), // [C01,C02,C06:fold4-is-two-fold-steps]
{
    hide(fadd); hide(fsub); hide(fmul);
    if values.len() != 4 {
        return Err(Error::InvalidValuesLength { expected: 4, got: values.len() });
    }
    proof {
        reveal_with_fuel(fold_spec, 2);
        assert(pow2(1) == 2) by(compute_only);
        assert(fv(values@).subrange(0, 2) =~= seq![values@[0]@, values@[1]@]);
        assert(fv(values@).subrange(2, 4) =~= seq![values@[2]@, values@[3]@]);
    }
    // Applying the first layer of folding.
    let g0 = fri_formula2(values[0], values[1], eval_point, x_inv);
    let g1 = fri_formula2(values[2], values[3], eval_point, x_inv * OMEGA_4);

    proof {
        let v = fv(values@);
        reveal_with_fuel(sqn, 2);
        assert(v.subrange(0, 2)[0] == v[0] && v.subrange(0, 2)[1] == v[1]);
        assert(v.subrange(2, 4)[0] == v[2] && v.subrange(2, 4)[1] == v[3]);
        assert(fold_spec(1, v.subrange(0, 2), eval_point@, x_inv@) == fold2(v[0], v[1], eval_point@, x_inv@));
        assert(fold_spec(1, v.subrange(2, 4), eval_point@, fmul(x_inv@, W4)) == fold2(v[2], v[3], eval_point@, fmul(x_inv@, W4)));
        assert(g0@ == fold2(v[0], v[1], eval_point@, x_inv@));
        assert(g1@ == fold2(v[2], v[3], eval_point@, fmul(x_inv@, W4)));
        assert(sqn(eval_point@, 1) == fmul(eval_point@, eval_point@));
        assert(sqn(x_inv@, 1) == fmul(x_inv@, x_inv@));
        assert(fold_spec(2, v, eval_point@, x_inv@) == fold2(fold_spec(1, v.subrange(0, 2), eval_point@, x_inv@), fold_spec(1, v.subrange(2, 4), eval_point@, fmul(x_inv@, omega(2))), sqn(eval_point@, 1), sqn(x_inv@, 1)));
    }
    // Last layer, combining the results of the first layer.
    Ok(fri_formula2(g0, g1, eval_point * eval_point, x_inv * x_inv))
}
//@end

//@repo crates/fri/src/formula.rs fn fri_formula8 props=C01,C02,C06
fn fri_formula8(values: Vec<Felt>, eval_point: Felt, x_inv: Felt) -> (r: Result<Felt, Error>)
    ensures
        r.is_ok() <==> values@.len() == 8, // [C01,C02,C06,C07:fold8-needs-exactly-8-values]
        r.is_ok() ==> r->Ok_0@ == fold_spec(3, fv(values@), eval_point@, x_inv@), // [C01,C02,C06:fold8-is-three-fold-steps]
{
    hide(fadd); hide(fsub); hide(fmul);
    if values.len() != 8 {
        return Err(Error::InvalidValuesLength { expected: 8, got: values.len() });
    }
    proof {
        reveal_with_fuel(sqn, 3);
        assert(pow2(2) == 4) by(compute_only);
    }
    // Applying the first layer of folding.
    let g0 = fri_formula4(/*+*/{ let t = /*-*/values[0..4].to_vec()/*+*/; proof { assert(fv(t@) =~= fv(values@).subrange(0, 4)); } t }/*-*/, eval_point, x_inv)?;
    let g1 = fri_formula4(/*+*/{ let t = /*-*/values[4..8].to_vec()/*+*/; proof { assert(fv(t@) =~= fv(values@).subrange(4, 8)); } t }/*-*/, eval_point, x_inv * OMEGA_8)?;

    // Preparing variables for the last layer.
    let eval_point2 = eval_point * eval_point;
    let eval_point4 = eval_point2 * eval_point2;
    let x_inv2 = x_inv * x_inv;
    let x_inv4 = x_inv2 * x_inv2;

    proof {
        let v = fv(values@);
        assert(sqn(eval_point@, 2) == eval_point4@);
        assert(sqn(x_inv@, 2) == x_inv4@);
        assert(g0@ == fold_spec(2, v.subrange(0, 4), eval_point@, x_inv@));
        assert(g1@ == fold_spec(2, v.subrange(4, 8), eval_point@, fmul(x_inv@, W8)));
        assert(fold_spec(3, v, eval_point@, x_inv@) == fold2(fold_spec(2, v.subrange(0, 4), eval_point@, x_inv@), fold_spec(2, v.subrange(4, 8), eval_point@, fmul(x_inv@, omega(3))), sqn(eval_point@, 2), sqn(x_inv@, 2)));
    }
    // Last layer, combining the results of the second layer.
    Ok(fri_formula2(g0, g1, eval_point4, x_inv4))
}
//@end

//@repo crates/fri/src/formula.rs fn fri_formula16 props=C01,C02,C06
fn fri_formula16(values: Vec<Felt>, eval_point: Felt, x_inv: Felt) -> (r: Result<Felt, Error>)
    ensures
        r.is_ok() <==> values@.len() == 16, // [C01,C02,C06,C07:fold16-needs-exactly-16-values]
        r.is_ok() ==> r->Ok_0@ == fold_spec(4, fv(values@), eval_point@, x_inv@), // [C01,C02,C06:fold16-is-four-fold-steps]
{
    hide(fadd); hide(fsub); hide(fmul);
    if values.len() != 16 {
        return Err(Error::InvalidValuesLength { expected: 16, got: values.len() });
    }
    proof {
        reveal_with_fuel(sqn, 4);
        assert(pow2(3) == 8) by(compute_only);
    }
    // Applying the first layer of folding.
    let g0 = fri_formula8(/*+*/{ let t = /*-*/values[0..8].to_vec()/*+*/; proof { assert(fv(t@) =~= fv(values@).subrange(0, 8)); } t }/*-*/, eval_point, x_inv)?;
    let g1 = fri_formula8(/*+*/{ let t = /*-*/values[8..16].to_vec()/*+*/; proof { assert(fv(t@) =~= fv(values@).subrange(8, 16)); } t }/*-*/, eval_point, x_inv * OMEGA_16)?;

    // Preparing variables for the last layer.
    let eval_point2 = eval_point * eval_point;
    let eval_point4 = eval_point2 * eval_point2;
    let eval_point8 = eval_point4 * eval_point4;
    let x_inv2 = x_inv * x_inv;
    let x_inv4 = x_inv2 * x_inv2;
    let x_inv8 = x_inv4 * x_inv4;

    proof {
        let v = fv(values@);
        assert(sqn(eval_point@, 3) == eval_point8@);
        assert(sqn(x_inv@, 3) == x_inv8@);
        assert(g0@ == fold_spec(3, v.subrange(0, 8), eval_point@, x_inv@));
        assert(g1@ == fold_spec(3, v.subrange(8, 16), eval_point@, fmul(x_inv@, W16)));
        assert(fold_spec(4, v, eval_point@, x_inv@) == fold2(fold_spec(3, v.subrange(0, 8), eval_point@, x_inv@), fold_spec(3, v.subrange(8, 16), eval_point@, fmul(x_inv@, omega(4))), sqn(eval_point@, 3), sqn(x_inv@, 3)));
    }
    // Last layer, combining the results of the second layer.
    Ok(fri_formula2(g0, g1, eval_point8, x_inv8))
}
//@end

pub open spec fn log2_cs(cs: nat) -> nat { if cs == 2 { 1 } else if cs == 4 { 2 } else if cs == 8 { 3 } else { 4 } }

//@repo crates/fri/src/formula.rs fn fri_formula props=C01,C02,C06
pub fn fri_formula(
    values: Vec<Felt>,
    eval_point: Felt,
    x_inv: Felt,
    coset_size: Felt,
) -> (r: Result<Felt, Error>)
    requires
        coset_size@ == 2 || coset_size@ == 4 || coset_size@ == 8 || coset_size@ == 16, // [C18:fri-formula-coset-size-in-2-4-8-16-else-panic]
    ensures
        r.is_ok() <==> values@.len() == coset_size@, // [C01,C02,C06,C07:fold-needs-exactly-coset-size-values]
        r.is_ok() ==> r->Ok_0@ == fold_spec(log2_cs(coset_size@), fv(values@), eval_point@, x_inv@), // [C01,C02,C06:fold-is-log2(coset)-fold-steps]
{
    let coset_size: u64 = coset_size.to_biguint().try_into()?;
    // Sort by usage frequency.
    match coset_size {
        2 => {
            if values.len() != 2 {
                return Err(Error::InvalidValuesLength { expected: 2, got: values.len() });
            }
            Ok(fri_formula2(values[0], values[1], eval_point, x_inv))
        }
        4 => fri_formula4(values, eval_point, x_inv),
        8 => fri_formula8(values, eval_point, x_inv),
        16 => fri_formula16(values, eval_point, x_inv),
        _ => panic!("Invalid coset size: {}", coset_size),
    }
}
//@end
} // verus!
} // mod formula
