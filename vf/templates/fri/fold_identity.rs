pub mod fold_identity {
// C06: "Folding a coset of size 2^k with challenge b yields 2^k * sum_j b^j * P_j(y), where P(x) = sum_j x^j * P_j(x^(2^k)) and
// y is the coset's image."  MACHINE-CHECKED for the k-fold composition `fold_spec` that fri_formula2/4/8/16 are proved to compute
// (k = 1..4), for every coefficient vector, base point, challenge.  Method: every field value is m(integer expression); the
// identities are proved over the integers (even/odd split of a polynomial, one fold step, induction over the levels with the
// half-coset structure v = V(x) ++ V(x*g_k), g_k^(2^(k-1)) = -1) and reduced mod P.
use vstd::prelude::*;
use vstd::arithmetic::div_mod::*;
use crate::prelude::*;
use crate::lemmas::*;
use crate::numth::*;
use super::formula::*;
verus! {
/// x^(2^j) by repeated squaring is the plain power (x < P)
proof fn lemma_sqn_pow(x: nat, j: nat)
    requires x < P
    ensures sqn(x, j) == pow_mod(x, pow2(j))
    decreases j
{
    if j == 0 {
        assert(pow2(0) == 1);
        assert(pow_mod(x, 0) == 1nat % P);
        assert(1nat % P == 1) by(compute_only);
        assert(x * 1 == x);
        lemma_small_mod(x, P);
    } else {
        lemma_sqn_pow(x, (j - 1) as nat);
        lemma_pow_mod_add(x, pow2((j - 1) as nat), pow2((j - 1) as nat));
    }
}
proof fn axiom_omega(k: nat)
    requires 2 <= k <= 4
    ensures fmul(omega(k), gen(k)) == 1, omega(k) < P, gen(k) < P
{
    lemma_omega_is_inverse_generator();
    lemma_pow_mod_is_pow(3, ((P - 1) as nat) / pow2(k));
    assert(W4 < P && W8 < P && W16 < P) by(compute_only);
}
proof fn axiom_gen_half(k: nat)
    requires 2 <= k <= 4
    ensures sqn(gen(k), (k - 1) as nat) == (P - 1) as nat
{
    lemma_pow_mod_is_pow(3, ((P - 1) as nat) / pow2(k));
    lemma_sqn_pow(gen(k), (k - 1) as nat);
    lemma_gen_order(k);
}
// ------------------------------------------------------------------ reduction mod P
pub open spec fn m(a: int) -> nat { (a % (P as int)) as nat }
proof fn lemma_m_range(a: int) ensures m(a) < P, m(a) as int == a % (P as int) { assert(P > 0) by(compute_only); lemma_mod_bound(a, P as int); }
proof fn lemma_m_small(a: nat) requires a < P ensures m(a as int) == a { lemma_small_mod(a, P); }
proof fn lemma_m_add(a: int, b: int) ensures fadd(m(a), m(b)) == m(a + b) { lemma_m_range(a); lemma_m_range(b); lemma_add_mod_noop(a, b, P as int); }
proof fn lemma_m_mul(a: int, b: int) ensures fmul(m(a), m(b)) == m(a * b) { lemma_m_range(a); lemma_m_range(b); lemma_mul_mod_noop_general(a, b, P as int); }
proof fn lemma_m_sub(a: int, b: int) ensures fsub(m(a), m(b)) == m(a - b) {
    lemma_m_range(a); lemma_m_range(b);
    lemma_sub_mod_noop(a, b, P as int);
    lemma_mod_multiples_vanish(1, m(a) as int - m(b) as int, P as int);
    assert((m(a) + P) - m(b) == P as int * 1 + (m(a) as int - m(b) as int)) by(nonlinear_arith);
}
/// congruent integers have the same reduction; products with congruent factors
proof fn lemma_m_cong_mul(a: int, b: int, c: int) requires m(b) == m(c) ensures m(a * b) == m(a * c) { lemma_m_mul(a, b); lemma_m_mul(a, c); }
proof fn lemma_m_cong_add(a: int, b: int, c: int) requires m(b) == m(c) ensures m(a + b) == m(a + c) { lemma_m_add(a, b); lemma_m_add(a, c); }
proof fn lemma_m_one() ensures m(1) == 1 { assert(1int % (P as int) == 1) by(compute_only); }

// ------------------------------------------------------------------ integer polynomials
pub open spec fn ieval(c: Seq<int>, x: int) -> int decreases c.len() { if c.len() == 0 { 0 } else { c[0] + x * ieval(c.skip(1), x) } }
pub open spec fn evens(c: Seq<int>) -> Seq<int> { Seq::new(((c.len() + 1) / 2) as nat, |i: int| c[2 * i]) }
pub open spec fn odds(c: Seq<int>) -> Seq<int> { Seq::new((c.len() / 2) as nat, |i: int| c[2 * i + 1]) }

/// P(x) = P_even(x^2) + x * P_odd(x^2)
proof fn lemma_split(c: Seq<int>, x: int)
    ensures ieval(c, x) == ieval(evens(c), x * x) + x * ieval(odds(c), x * x)
    decreases c.len()
{
    let y = x * x;
    if c.len() == 0 {
        assert(evens(c).len() == 0 && odds(c).len() == 0);
        assert(x * 0 == 0) by(nonlinear_arith);
    } else if c.len() == 1 {
        assert(odds(c).len() == 0);
        assert(evens(c).len() == 1);
        assert(evens(c).skip(1).len() == 0);
        assert(c.skip(1).len() == 0);
        assert(ieval(c.skip(1), x) == 0);
        assert(ieval(evens(c).skip(1), y) == 0);
        assert(x * 0 == 0 && y * 0 == 0) by(nonlinear_arith);
        assert(evens(c)[0] == c[0]);
    } else {
        let r = c.skip(2);
        lemma_split(r, x);
        assert(evens(c).skip(1) =~= evens(r));
        assert(odds(c).skip(1) =~= odds(r));
        assert(c.skip(1).skip(1) =~= r);
        assert(evens(c)[0] == c[0] && odds(c)[0] == c[1]);
        assert(c.skip(1)[0] == c[1]);
        let e1 = ieval(evens(r), y); let o1 = ieval(odds(r), y);
        let rr = ieval(r, x);
        assert(rr == e1 + x * o1);
        // unfold the three evaluations once / twice
        assert(c.skip(1).len() > 0 && evens(c).len() > 0 && odds(c).len() > 0);
        assert(ieval(c.skip(1), x) == c[1] + x * rr);
        assert(ieval(c, x) == c[0] + x * (c[1] + x * rr));
        assert(ieval(evens(c), y) == c[0] + y * e1);
        assert(ieval(odds(c), y) == c[1] + y * o1);
        assert(c[0] + x * (c[1] + x * (e1 + x * o1)) == (c[0] + y * e1) + x * (c[1] + y * o1)) by(nonlinear_arith) requires y == x * x;
    }
}
/// the folded polynomial: even part + e * odd part (coefficient-wise)
pub open spec fn combine(d: Seq<int>, e: int) -> Seq<int> {
    Seq::new(evens(d).len(), |i: int| evens(d)[i] + e * (if i < odds(d).len() { odds(d)[i] } else { 0 }))
}
proof fn lemma_combine_eval(a: Seq<int>, b: Seq<int>, e: int, y: int)
    requires b.len() <= a.len() <= b.len() + 1
    ensures ieval(Seq::new(a.len(), |i: int| a[i] + e * (if i < b.len() { b[i] } else { 0 })), y) == ieval(a, y) + e * ieval(b, y)
    decreases a.len()
{
    let s = Seq::new(a.len(), |i: int| a[i] + e * (if i < b.len() { b[i] } else { 0 }));
    if a.len() == 0 {
        assert(e * 0 == 0) by(nonlinear_arith);
    } else if b.len() == 0 {
        assert(a.len() == 1);
        assert(s.skip(1).len() == 0 && a.skip(1).len() == 0);
        assert(ieval(s.skip(1), y) == 0 && ieval(a.skip(1), y) == 0 && ieval(b, y) == 0);
        assert(s[0] == a[0] + e * 0);
        assert(e * 0 == 0 && y * 0 == 0) by(nonlinear_arith);
        assert(ieval(s, y) == s[0] + y * 0);
        assert(ieval(a, y) == a[0] + y * 0);
    } else {
        let a1 = a.skip(1); let b1 = b.skip(1);
        lemma_combine_eval(a1, b1, e, y);
        let s1 = Seq::new(a1.len(), |i: int| a1[i] + e * (if i < b1.len() { b1[i] } else { 0 }));
        assert(s.skip(1) =~= s1);
        let ea = ieval(a1, y); let eb = ieval(b1, y);
        assert(s[0] == a[0] + e * b[0]);
        assert(ieval(s, y) == s[0] + y * ieval(s.skip(1), y));
        assert(ieval(s1, y) == ea + e * eb);
        assert(ieval(a, y) == a[0] + y * ea);
        assert(ieval(b, y) == b[0] + y * eb);
        assert(a[0] + e * b[0] + y * (ea + e * eb) == (a[0] + y * ea) + e * (b[0] + y * eb)) by(nonlinear_arith);
    }
}
proof fn lemma_combine(d: Seq<int>, e: int, y: int)
    ensures ieval(combine(d, e), y) == ieval(evens(d), y) + e * ieval(odds(d), y)
{
    lemma_combine_eval(evens(d), odds(d), e, y);
    assert(combine(d, e) =~= Seq::new(evens(d).len(), |i: int| evens(d)[i] + e * (if i < odds(d).len() { odds(d)[i] } else { 0 })));
}

/// evaluation points congruent mod P give congruent values
proof fn lemma_ieval_cong(c: Seq<int>, a: int, b: int)
    requires m(a) == m(b)
    ensures m(ieval(c, a)) == m(ieval(c, b))
    decreases c.len()
{
    if c.len() > 0 {
        lemma_ieval_cong(c.skip(1), a, b);
        let ra = ieval(c.skip(1), a); let rb = ieval(c.skip(1), b);
        lemma_m_mul(a, ra); lemma_m_mul(b, rb);
        lemma_m_add(c[0], a * ra); lemma_m_add(c[0], b * rb);
    }
}

// ------------------------------------------------------------------ one fold step on m-values
/// fold2 of two scaled evaluations at x and -x, with x * xi == 1 in the field
proof fn lemma_fold_step(d: Seq<int>, s: int, x: int, xm: int, xi: int, e: int)
    requires m(x * xi) == 1, m(xm) == m(-x)
    ensures fold2(m(s * ieval(d, x)), m(s * ieval(d, xm)), m(e), m(xi)) == m((2 * s) * ieval(combine(d, e), x * x))
{
    let y = x * x;
    let ev = ieval(evens(d), y); let od = ieval(odds(d), y);
    let f = s * ieval(d, x);
    let g0 = s * ieval(d, -x);
    let g = s * ieval(d, xm);
    lemma_split(d, x);
    lemma_split(d, -x);
    assert((-x) * (-x) == y) by(nonlinear_arith) requires y == x * x;
    lemma_ieval_cong(d, xm, -x);
    lemma_m_cong_mul(s, ieval(d, xm), ieval(d, -x));
    assert(m(g) == m(g0));
    // fold2 on m-values = m(f + g0 + (e*xi)*(f - g0))
    lemma_m_add(f, g0); lemma_m_sub(f, g0); lemma_m_mul(e, xi); lemma_m_mul(e * xi, f - g0); lemma_m_add(f + g0, (e * xi) * (f - g0));
    let total = f + g0 + (e * xi) * (f - g0);
    assert(fold2(m(f), m(g), m(e), m(xi)) == m(total));
    // total = 2 s ev + (2 s e od) * (x*xi)
    let a = s * ev; let b = s * (x * od);
    assert(f == a + b) by(nonlinear_arith) requires f == s * (ev + x * od), a == s * ev, b == s * (x * od);
    assert(g0 == a - b) by(nonlinear_arith) requires g0 == s * (ev + (-x) * od), a == s * ev, b == s * (x * od);
    assert(f + g0 == 2 * a && f - g0 == 2 * b);
    assert((e * xi) * (2 * b) == (2 * s * e * od) * (x * xi)) by(nonlinear_arith) requires b == s * (x * od);
    assert(2 * a == 2 * s * ev) by(nonlinear_arith) requires a == s * ev;
    assert(total == 2 * s * ev + (2 * s * e * od) * (x * xi));
    lemma_m_one();
    lemma_m_cong_mul(2 * s * e * od, x * xi, 1);
    lemma_m_cong_add(2 * s * ev, (2 * s * e * od) * (x * xi), (2 * s * e * od) * 1);
    lemma_combine(d, e, y);
    assert(2 * s * ev + (2 * s * e * od) * 1 == (2 * s) * (ev + e * od)) by(nonlinear_arith);
}

// ------------------------------------------------------------------ k levels
pub open spec fn isq(x: int, j: nat) -> int decreases j { if j == 0 { x } else { isq(x, (j - 1) as nat) * isq(x, (j - 1) as nat) } }
proof fn lemma_sqn_m(x: int, j: nat) ensures sqn(m(x), j) == m(isq(x, j)) decreases j {
    if j > 0 { lemma_sqn_m(x, (j - 1) as nat); lemma_m_mul(isq(x, (j - 1) as nat), isq(x, (j - 1) as nat)); }
}
proof fn lemma_isq_mul(a: int, b: int, j: nat) ensures isq(a * b, j) == isq(a, j) * isq(b, j) decreases j {
    if j > 0 {
        lemma_isq_mul(a, b, (j - 1) as nat);
        let p = isq(a, (j - 1) as nat); let q = isq(b, (j - 1) as nat);
        assert((p * q) * (p * q) == (p * p) * (q * q)) by(nonlinear_arith);
    }
}
proof fn lemma_isq_inv(x: int, xi: int, j: nat) requires m(x * xi) == 1 ensures m(isq(x, j) * isq(xi, j)) == 1 decreases j {
    lemma_isq_mul(x, xi, j);
    // isq(x*xi, j) ≡ 1
    lemma_m_one();
    if j > 0 {
        lemma_isq_inv(x, xi, (j - 1) as nat);
        lemma_isq_mul(x, xi, (j - 1) as nat);
        let t = isq(x * xi, (j - 1) as nat);
        lemma_m_mul(t, t);
        assert(1nat * 1nat == 1nat);
        lemma_small_mod(1, P);
    }
}
/// the honest values of a coset of size 2^k based at x, in the order the verifier receives them
pub open spec fn coset_vals(k: nat, c: Seq<int>, x: int) -> Seq<nat> decreases k {
    if k <= 1 { seq![m(ieval(c, x)), m(ieval(c, -x))] }
    else { coset_vals((k - 1) as nat, c, x) + coset_vals((k - 1) as nat, c, x * (gen(k) as int)) }
}
/// sum_j e^j P_j  as k successive even/odd combinations with the challenge squared each time
pub open spec fn fold_poly(k: nat, c: Seq<int>, e: int) -> Seq<int> decreases k {
    if k <= 1 { combine(c, e) } else { combine(fold_poly((k - 1) as nat, c, e), isq(e, (k - 1) as nat)) }
}
proof fn lemma_coset_len(k: nat, c: Seq<int>, x: int) requires k >= 1 ensures coset_vals(k, c, x).len() == pow2(k) decreases k {
    if k > 1 { lemma_coset_len((k - 1) as nat, c, x); lemma_coset_len((k - 1) as nat, c, x * (gen(k) as int)); }
    else { assert(pow2(1) == 2) by(compute_only); }
}

/// THE FOLD IDENTITY (property C06): for k = 1..4
pub proof fn lemma_fold_identity(k: nat, c: Seq<int>, x: int, xi: int, e: int)
    requires 1 <= k <= 4, m(x * xi) == 1
    ensures fold_spec(k, coset_vals(k, c, x), m(e), m(xi)) == m((pow2(k) as int) * ieval(fold_poly(k, c, e), isq(x, k))) // [C06:lemma-folding-a-coset-of-size-2^k-is-2^k-times-the-folded-polynomial-at-the-coset-image]
    decreases k
{
    lemma_m_one();
    if k == 1 {
        assert(pow2(1) == 2) by(compute_only);
        lemma_fold_step(c, 1, x, -x, xi, e);
        assert(1 * ieval(c, x) == ieval(c, x) && 1 * ieval(c, -x) == ieval(c, -x)) by(nonlinear_arith);
        assert(isq(x, 1) == x * x) by { assert(isq(x, 0) == x); }
        assert(2 * 1 == 2);
    } else {
        let j = (k - 1) as nat;
        let g = gen(k) as int; let w = omega(k) as int;
        let half = pow2(j) as int;
        let v = coset_vals(k, c, x);
        let v0 = coset_vals(j, c, x); let v1 = coset_vals(j, c, x * g);
        lemma_coset_len(j, c, x); lemma_coset_len(j, c, x * g);
        assert(v.subrange(0, half) =~= v0);
        assert(v.subrange(half, 2 * half) =~= v1);
        // second half: base x*g with inverse xi*w
        axiom_omega(k);
        lemma_m_small(omega(k)); lemma_m_small(gen(k));
        lemma_m_mul(xi, w);                       // fmul(m xi, omega) = m(xi*w)
        assert(m((x * g) * (xi * w)) == 1) by {
            assert((x * g) * (xi * w) == (x * xi) * (w * g)) by(nonlinear_arith);
            lemma_m_mul(x * xi, w * g);
            lemma_m_mul(w, g);
            assert(1nat * 1nat == 1nat); lemma_small_mod(1, P);
        }
        lemma_fold_identity(j, c, x, xi, e);
        lemma_fold_identity(j, c, x * g, xi * w, e);
        let q = fold_poly(j, c, e);
        let s = pow2(j) as int;
        let y = isq(x, j); let y1 = isq(x * g, j);
        // y1 ≡ -y
        lemma_isq_mul(x, g, j);
        axiom_gen_half(k);
        lemma_sqn_m(g, j);
        assert(m(isq(g, j)) == (P - 1) as nat);
        assert(m(-1) == (P - 1) as nat) by { assert((-1int) % (P as int) == P as int - 1) by(compute_only); }
        lemma_m_cong_mul(y, isq(g, j), -1);
        assert(y * (-1) == -y) by(nonlinear_arith);
        assert(m(y1) == m(-y));
        // outer step with challenge e^(2^j) and inverse xi^(2^j)
        lemma_sqn_m(e, j); lemma_sqn_m(xi, j);
        lemma_isq_inv(x, xi, j);
        lemma_fold_step(q, s, y, y1, isq(xi, j), isq(e, j));
        assert(isq(x, k) == y * y);
        assert(2 * s == pow2(k) as int);
    }
}
// ------------------------------------------------------------------ closed form of the folded polynomial: sum_j e^j P_j
pub open spec fn cz(c: Seq<int>, i: int) -> int { if 0 <= i < c.len() { c[i] } else { 0 } }
pub open spec fn ipow(e: int, j: nat) -> int decreases j { if j == 0 { 1 } else { e * ipow(e, (j - 1) as nat) } }
/// sum_{j<n} e^j * c[base + j]
pub open spec fn sume(c: Seq<int>, e: int, base: int, n: nat) -> int decreases n {
    if n == 0 { 0 } else { sume(c, e, base, (n - 1) as nat) + ipow(e, (n - 1) as nat) * cz(c, base + n - 1) }
}
proof fn lemma_ipow_add(e: int, a: nat, b: nat) ensures ipow(e, a + b) == ipow(e, a) * ipow(e, b) decreases b {
    if b == 0 { assert(ipow(e, a) * 1 == ipow(e, a)) by(nonlinear_arith); } else {
        lemma_ipow_add(e, a, (b - 1) as nat);
        assert((a + b - 1) as nat == a + (b - 1) as nat);
        let p = ipow(e, a); let q = ipow(e, (b - 1) as nat);
        assert(e * (p * q) == p * (e * q)) by(nonlinear_arith);
    }
}
proof fn lemma_sume_split(c: Seq<int>, e: int, base: int, n1: nat, n2: nat)
    ensures sume(c, e, base, n1 + n2) == sume(c, e, base, n1) + ipow(e, n1) * sume(c, e, base + n1, n2)
    decreases n2
{
    if n2 == 0 { assert(ipow(e, n1) * 0 == 0) by(nonlinear_arith); } else {
        let t = (n2 - 1) as nat;
        lemma_sume_split(c, e, base, n1, t);
        lemma_ipow_add(e, n1, t);
        assert((n1 + n2 - 1) as nat == n1 + t);
        let w = cz(c, base + n1 + n2 - 1);
        let a = ipow(e, n1); let b = ipow(e, t); let r = sume(c, e, base + n1, t);
        assert(a * r + (a * b) * w == a * (r + b * w)) by(nonlinear_arith);
    }
}
proof fn lemma_isq_ipow(e: int, j: nat) ensures isq(e, j) == ipow(e, pow2(j)) decreases j {
    if j == 0 { assert(ipow(e, 1) == e * ipow(e, 0)); assert(e * 1 == e) by(nonlinear_arith); assert(pow2(0) == 1); } else {
        lemma_isq_ipow(e, (j - 1) as nat);
        lemma_ipow_add(e, pow2((j - 1) as nat), pow2((j - 1) as nat));
    }
}
proof fn lemma_combine_coeff(d: Seq<int>, e: int, i: int)
    requires i >= 0
    ensures cz(combine(d, e), i) == cz(d, 2 * i) + e * cz(d, 2 * i + 1)
{
    assert(e * 0 == 0) by(nonlinear_arith);
}
/// coefficient i of the k-fold folded polynomial is  sum_{j < 2^k} e^j * c[2^k * i + j]   (= sum_j e^j P_j, coefficient-wise)
pub proof fn lemma_fold_poly_coeff(k: nat, c: Seq<int>, e: int, i: int)
    requires k >= 1, i >= 0
    ensures cz(fold_poly(k, c, e), i) == sume(c, e, (pow2(k) as int) * i, pow2(k)) // [C06:lemma-folded-polynomial-is-sum_j-b^j-P_j-coefficientwise]
    decreases k
{
    if k == 1 {
        assert(pow2(1) == 2 && pow2(0) == 1) by(compute_only);
        lemma_combine_coeff(c, e, i);
        assert(sume(c, e, 2 * i, 2) == sume(c, e, 2 * i, 1) + ipow(e, 1) * cz(c, 2 * i + 1));
        assert(sume(c, e, 2 * i, 1) == sume(c, e, 2 * i, 0) + ipow(e, 0) * cz(c, 2 * i));
        assert(ipow(e, 1) == e * ipow(e, 0));
        assert(e * 1 == e && 1 * cz(c, 2 * i) == cz(c, 2 * i)) by(nonlinear_arith);
    } else {
        let j = (k - 1) as nat;
        let h = pow2(j);
        let d = fold_poly(j, c, e);
        lemma_combine_coeff(d, isq(e, j), i);
        lemma_fold_poly_coeff(j, c, e, 2 * i);
        lemma_fold_poly_coeff(j, c, e, 2 * i + 1);
        lemma_isq_ipow(e, j);
        let base = (pow2(k) as int) * i;
        assert(pow2(k) == 2 * h);
        assert((h as int) * (2 * i) == base && (h as int) * (2 * i + 1) == base + h) by(nonlinear_arith) requires base == ((2 * h) as int) * i;
        lemma_sume_split(c, e, base, h, h);
        assert(h + h == pow2(k));
    }
}
} // verus!
} // mod fold_identity
