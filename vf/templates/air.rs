pub mod swiftness_air {
pub mod trace {
//@include air/trace_config.rs
//@include air/trace_mod.rs
} // mod trace
//@include air/consts.rs
//@include air/domains.rs
//@include air/types.rs
//@include air/dynamic.rs
//@include air/public_memory.rs
//@include air/diluted.rs
//@include air/periodic.rs
pub mod layout {
//@include air/layout_mod.rs
//@iffeature recursive
//@include air/layouts/recursive.rs
} // mod layout
} // mod swiftness_air
