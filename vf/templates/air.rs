pub mod swiftness_air {
pub mod trace {
//@include air/trace_config.rs
} // mod trace
} // mod swiftness_air
