pub mod swiftness_air {
pub mod trace {
//@include air/trace_config.rs
//@include air/trace_mod.rs
} // mod trace
//@include air/consts.rs
//@include air/domains.rs
//@include air/types.rs
//@include air/dynamic.rs
//@include air/public_memory.rs
//@include air/public_input_binding.rs
//@include air/diluted.rs
//@include air/diluted_lemma.rs
//@include air/periodic.rs
pub mod layout {
//@include air/layout_mod.rs
//@iffeature recursive
//@include air/layouts/recursive.rs
//@iffeature light_dex
//@include air/layouts/dex_light.rs
//@iffeature light_dynamic
//@include air/layouts/dynamic_light.rs
//@iffeature light_recursive_with_poseidon
//@include air/layouts/recursive_with_poseidon_light.rs
//@iffeature light_small
//@include air/layouts/small_light.rs
//@iffeature light_starknet
//@include air/layouts/starknet_light.rs
//@iffeature light_starknet_with_keccak
//@include air/layouts/starknet_with_keccak_light.rs
//@iffeature mid_dex
//@include air/layouts/dex_mid.rs
//@iffeature mid_small
//@include air/layouts/small_mid.rs
//@iffeature mid_recursive_with_poseidon
//@include air/layouts/recursive_with_poseidon_mid.rs
//@iffeature mid_starknet
//@include air/layouts/starknet_mid.rs
//@iffeature mid_starknet_with_keccak
//@include air/layouts/starknet_with_keccak_mid.rs
//@iffeature mid_dynamic
//@include air/layouts/dynamic_mid.rs
} // mod layout
} // mod swiftness_air
