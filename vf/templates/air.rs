pub mod swiftness_air {
pub mod trace {
//@include air/trace_config.rs
} // mod trace
//@include air/domains.rs
} // mod swiftness_air
