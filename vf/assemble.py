"""Assemble a Verus unit from template fragments and the CURRENT text of /repo.

Template directives (line comments, one per line):

  //@repo <file> <kind> <key> [crate=<mod>] [props=C01,C02] [rules=...]
  <annotated item text (repo text + ghost text)>
  //@end
      The item is re-read from /repo on every run.  Its executable token stream (after the
      mechanical normalisation below) is compared with the template's executable token stream
      (template text with ghost text removed).  Equal  -> the template text is emitted as is.
      Different (the repository changed) -> the ghost text is transplanted onto the NEW
      repository tokens (token-level diff), so the verifier always sees the code that is in
      /repo now.  Either way an erasure check (ghost-strip(output) == repo tokens) must pass.

  //@verbatim <file> <kind> <key>[,<key>...] [crate=<mod>]
      Emit the normalised repository item(s) without any annotation.

  //@hexconst <file> <NAME>[,<NAME>...] [vis=pub]
      `const NAME: Felt = Felt::from_hex_unchecked("0x..")` / `felt_hex!("0x..")`  ->
      `exec const NAME: Felt ensures NAME@ == <literal parsed from the repository text> % P`.

  //@hexvec <file> <fn>
      `fn f() -> Vec<Felt> { vec![Felt::from_hex_unchecked(".."), ..] }` -> contract listing every element
      (literals parsed from the repository text; the body shape is checked token by token).

  //@debug <Type>[,<Type>...]
      generated (external, never verified nor relied on) `impl Debug`, needed where the code calls `unwrap` on a Result.

  //@clone <Type>[,<Type>...]
      generated `impl Clone` with structural postcondition (assumption A-clone).

  //@from_variants <file> <EnumName> [crate=<mod>]
      generated `impl From<Inner> for Enum` for every `#[from]` variant of a thiserror enum.

Normalisation of repository text (mechanical, applied on every run, logged):
  N1  comments and doc comments dropped; all attributes `#[..]` dropped; `#[cfg(..)]` resolved for
      the unit's feature set (attributed item / let statement / block kept or dropped);
  N2  `crate::`  ->  `crate::<crate module>::`  (single-file module tree);
  N3  `.to_be_bytes()` / `.sort()` / `.dedup()` / `.extend(..)` -> `..._x()` (trusted wrappers carrying the assumed std contract);
  N4  rule R1/R2/H rewrites where requested by `rules=` (see rules.py).
"""
import difflib
import hashlib
import os
import re
import sys

sys.path.insert(0, os.path.dirname(os.path.abspath(__file__)))
from rtok import (Tok, tokenize, parse_items, match_close, skip_attrs, attr_cfg_value, find_depth0,
                  is_p, is_id, OPEN, CLOSE, TokError)

P = 0x800000000000011000000000000000000000000000000000000000000000001
REPO = os.environ.get('VERIF_REPO', '/repo')
import featres


def code_features(path, features):
    """cfg alternatives of a repository file are resolved under the features ITS CRATE receives through the Cargo.toml wiring
    when the unit's features are selected on the top-level verifier crate (featres.py); the unit's own set drives the spec side"""
    try:
        return featres.code_features(REPO, path, features)
    except AssembleError:
        raise
    except Exception as e:
        raise AssembleError('feature wiring of the workspace could not be resolved: %s' % e)


class AssembleError(Exception):
    """lost anchor / unsupported construct: never an alarm (exit 2)."""


# ------------------------------------------------------------------ repo side

_file_cache = {}


def load_repo_file(path):
    full = os.path.join(REPO, path)
    if full not in _file_cache:
        try:
            src = open(full).read()
        except OSError as e:
            raise AssembleError('cannot read %s: %s' % (full, e))
        _file_cache[full] = (src, tokenize(src))
    return _file_cache[full]


def cfg_ok(toks, attrs, features):
    for a in attrs:
        v = attr_cfg_value(toks, a, features)
        if v is False:
            return False
    return True


def locate(path, kind, key, features):
    """Find item `key` of `kind` in repo file; key may be  Container::name  (container = impl/mod/trait name)."""
    src, toks = load_repo_file(path)
    parts = key.split('::')
    name = parts[-1]
    containers = parts[:-1]

    def search(lo, hi, conts, cname):
        out = []
        for it in parse_items(toks, lo, hi, cname):
            if not cfg_ok(toks, it.attrs, features):
                continue
            if conts:
                if it.kind in ('impl', 'mod', 'trait') and it.body and cont_match(it.name, conts[0]):
                    out += search(it.body[0] + 1, it.body[1], conts[1:], it.name)
            else:
                if it.kind == kind and it.name == name:
                    out.append(it)
        return out

    found = search(0, len(toks), containers, '')
    if len(found) != 1:
        raise AssembleError('lost anchor: %s %s in %s (%d matches)' % (kind, key, path, len(found)))
    return src, toks, found[0]


def cont_match(item_name, want):
    if item_name == want:
        return True
    # 'Trait@Type' matches want 'Type' only if want has no '@'
    if '@' in item_name and '@' not in want:
        return item_name.split('@')[1] == want
    return False


def normalize(toks, lo, hi, features, crate_mod, log):
    """N1 + N2 on toks[lo:hi]; returns list of Tok."""
    out = []
    i = lo
    while i < hi:
        t = toks[i]
        if is_p(t, '#') and i + 1 < hi and (is_p(toks[i + 1], '[') or (is_p(toks[i + 1], '!') and is_p(toks[i + 2], '['))):
            j, attrs = skip_attrs(toks, i)
            keep = True
            for a in attrs:
                v = attr_cfg_value(toks, a, features)
                if v is False:
                    keep = False
            if not keep:
                # drop attributed node
                k = node_end(toks, j, hi)
                log.append('N1 cfg-false node dropped at line %d' % toks[i].line)
                i = k
            else:
                i = j
            continue
        if is_id(t, 'crate') and i + 1 < hi and is_p(toks[i + 1], '::') and crate_mod and not (out and is_p(out[-1], '$')):
            out.append(t)
            out.append(toks[i + 1])
            out.append(Tok('id', crate_mod, t.start, t.start, t.line))
            out.append(Tok('p', '::', t.start, t.start, t.line))
            i += 2
            continue
        if is_id(t) and t.text in RENAMES and out and is_p(out[-1], '.') and i + 1 < hi and is_p(toks[i + 1], '('):
            out.append(Tok('id', RENAMES[t.text], t.start, t.end, t.line))
            log.append('N3 method %s -> %s at line %d' % (t.text, RENAMES[t.text], t.line))
            i += 1
            continue
        out.append(t)
        i += 1
    return out


# N3: std methods whose signature assume_specification cannot name -> trusted wrapper of the same contract
RENAMES = {'to_be_bytes': 'to_be_bytes_x', 'to_le_bytes': 'to_le_bytes_x', 'sort': 'sort_x', 'sort_unstable': 'sort_x', 'dedup': 'dedup_x', 'extend': 'extend_x',
           # std: `impl<T: Clone> ToOwned for T { fn to_owned(&self) -> T { self.clone() } }` (all uses are on Clone values)
           'to_owned': 'clone'}


def node_end(toks, j, hi):
    """End (exclusive) of the syntactic node starting at toks[j]: block, let statement, or item."""
    t = toks[j]
    if is_p(t, '{'):
        return match_close(toks, j) + 1
    # statement / item: up to ';' at depth 0, or a '{...}' block for fn/impl/mod/struct/enum items
    k = j
    itemish = False
    while k < hi:
        tk = toks[k]
        if is_id(tk) and tk.text in ('fn', 'impl', 'mod', 'struct', 'enum', 'trait'):
            itemish = True
        if tk.kind == 'p':
            if tk.text == ';':
                return k + 1
            if tk.text == ',':
                return k + 1
            if tk.text == '{' and itemish:
                return match_close(toks, k) + 1
            if tk.text in OPEN:
                k = match_close(toks, k)
        k += 1
    return hi


# ------------------------------------------------------------------ template side: ghost marking

CLAUSE_KW = {'requires', 'ensures', 'decreases', 'invariant', 'invariant_except_break', 'recommends', 'no_unwind',
             'opens_invariants', 'default_ensures', 'returns'}


def ghost_mask(toks):
    """Boolean list: True = ghost (not part of the executable text)."""
    n = len(toks)
    g = [False] * n
    i = 0

    def mark(a, b):
        for k in range(a, b):
            g[k] = True

    while i < n:
        t = toks[i]
        if t.kind == 'gon':
            j = i + 1
            while j < n and toks[j].kind != 'goff':
                j += 1
            if j >= n:
                raise AssembleError('unterminated /*+*/ marker at template line %d' % t.line)
            mark(i, j + 1)
            i = j + 1
            continue
        if t.kind == 'goff':
            raise AssembleError('stray /*-*/ marker at template line %d' % t.line)
        if is_p(t, '#') and i + 1 < n and (is_p(toks[i + 1], '[') or (is_p(toks[i + 1], '!') and i + 2 < n and is_p(toks[i + 2], '['))):
            j, _ = skip_attrs(toks, i)
            mark(i, j)
            i = j
            continue
        if is_p(t, '->') and i + 3 < n and is_p(toks[i + 1], '(') and is_id(toks[i + 2]) and is_p(toks[i + 3], ':'):
            e = match_close(toks, i + 1)
            mark(i + 1, i + 4)
            mark(e, e + 1)
            i += 4
            continue
        if t.kind == 'id':
            if t.text in CLAUSE_KW and not (i > 0 and (is_p(toks[i - 1], '.') or is_p(toks[i - 1], '::'))):
                j = find_depth0(toks, i + 1, n, ('{', ';'))
                if j < 0:
                    raise AssembleError('clause without body at template line %d' % t.line)
                mark(i, j)
                i = j
                continue
            if t.text == 'proof' and i + 1 < n and is_p(toks[i + 1], '{'):
                e = match_close(toks, i + 1)
                mark(i, e + 1)
                i = e + 1
                continue
            if t.text == 'calc' and i + 2 < n and is_p(toks[i + 1], '!') and is_p(toks[i + 2], '{'):
                e = match_close(toks, i + 2)
                mark(i, e + 1)
                i = e + 1
                continue
            if t.text in ('assert', 'assume') and i + 1 < n and is_p(toks[i + 1], '('):
                e = match_close(toks, i + 1)
                j = e + 1
                if j < n and is_id(toks[j], 'by'):
                    j += 1
                    if j < n and is_p(toks[j], '('):
                        j = match_close(toks, j) + 1
                    b = find_depth0(toks, j, n, ('{',))
                    j = match_close(toks, b) + 1
                if j < n and is_p(toks[j], ';'):
                    j += 1
                mark(i, j)
                i = j
                continue
            if t.text == 'assert' and i + 1 < n and is_id(toks[i + 1], 'forall'):
                b = find_depth0(toks, i + 1, n, ('{',))
                j = match_close(toks, b) + 1
                if j < n and is_p(toks[j], ';'):
                    j += 1
                mark(i, j)
                i = j
                continue
            if t.text in ('reveal', 'reveal_with_fuel', 'hide') and i + 1 < n and is_p(toks[i + 1], '('):
                e = match_close(toks, i + 1)
                j = e + 1
                if j < n and is_p(toks[j], ';'):
                    j += 1
                mark(i, j)
                i = j
                continue
            if t.text == 'broadcast' and i + 1 < n and is_id(toks[i + 1], 'use'):
                j = find_depth0(toks, i, n, (';',))
                mark(i, j + 1)
                i = j + 1
                continue
            if t.text == 'let' and i + 1 < n and is_id(toks[i + 1]) and toks[i + 1].text in ('ghost', 'tracked'):
                j = find_depth0(toks, i, n, (';',))
                mark(i, j + 1)
                i = j + 1
                continue
        i += 1
    return g


def texts(ts):
    return [t.text for t in ts]


def thash(ts):
    return hashlib.sha256('\x1f'.join(texts(ts)).encode()).hexdigest()[:16]


def chunks(tx):
    """split a token-text list into statement-like chunks (each ends after ';', '{' or '}')"""
    out = []
    a = 0
    for i, t in enumerate(tx):
        if t in (';', '{', '}'):
            out.append((a, i + 1))
            a = i + 1
    if a < len(tx):
        out.append((a, len(tx)))
    return out


def align(old, new):
    """old-token-index -> new-token-index for tokens considered unchanged.
    Two levels: whole statement-like chunks first (so that a deleted or inserted statement cannot be
    mis-aligned with a look-alike prefix of a neighbour), then tokens inside replaced chunk ranges."""
    co, cn = chunks(old), chunks(new)
    ko = [tuple(old[a:b]) for a, b in co]
    kn = [tuple(new[a:b]) for a, b in cn]
    m = {}
    sm = difflib.SequenceMatcher(a=ko, b=kn, autojunk=False)
    for tag, i1, i2, j1, j2 in sm.get_opcodes():
        if tag == 'equal':
            for d in range(i2 - i1):
                (a, b), (c, _) = co[i1 + d], cn[j1 + d]
                for x in range(b - a):
                    m[a + x] = c + x
        elif tag == 'replace':
            a0, a1 = co[i1][0], co[i2 - 1][1]
            b0, b1 = cn[j1][0], cn[j2 - 1][1]
            sm2 = difflib.SequenceMatcher(a=old[a0:a1], b=new[b0:b1], autojunk=False)
            for a, b, size in sm2.get_matching_blocks():
                for d in range(size):
                    m[a0 + a + d] = b0 + b + d
    return m



def detect_renames(e_old, e_new):
    """Consistent renames of local identifiers between the annotated baseline and the repository tokens:
    X (absent from the new text) -> Y (absent from the old text), every occurrence of X replaced by Y at the
    aligned position and nothing else replaced by Y.  Returns {X: Y}."""
    to, tn = texts(e_old), texts(e_new)
    so, sn = set(to), set(tn)
    idk = lambda ts: set(t.text for t in ts if t.kind == 'id')
    gone = idk(e_old) - sn
    fresh = idk(e_new) - so
    # only LOCAL BINDINGS can be renamed: the identifier must occur in a binding position of the old text
    # (after let / mut / for / a closure bar, or directly before `:` as a parameter); macro names, paths, fields,
    # method names and keywords never qualify
    def bound(ts, names):
        ok = set()
        for k, t in enumerate(ts):
            if t.kind == 'id' and t.text in names:
                prev = ts[k - 1].text if k > 0 else ''
                nxt = ts[k + 1].text if k + 1 < len(ts) else ''
                if nxt == '!' or prev in ('.', '::') or nxt == '::':
                    continue
                if prev in ('let', 'mut', 'for', '|') or (nxt == ':' and prev in ('(', ',', '|')):
                    ok.add(t.text)
        return ok
    gone = bound(e_old, gone)
    fresh = bound(e_new, fresh)
    if not gone or not fresh:
        return {}
    # abstract the candidates and align
    ao = ['\x00ID' if t in gone else t for t in to]
    an = ['\x00ID' if t in fresh else t for t in tn]
    sm = difflib.SequenceMatcher(a=ao, b=an, autojunk=False)
    votes = {}
    for a, b, size in sm.get_matching_blocks():
        for d in range(size):
            if ao[a + d] == '\x00ID':
                votes.setdefault(to[a + d], []).append(tn[b + d])
    ren = {}
    for x, ys in votes.items():
        y = ys[0]
        if all(v == y for v in ys) and len(ys) == to.count(x) and tn.count(y) == len(ys):
            ren[x] = y
    # injective
    if len(set(ren.values())) != len(ren):
        return {}
    return ren


def apply_renames(body, ren):
    """rename identifier tokens in a template body (executable and ghost text alike)"""
    ttoks = tokenize(body)
    out = []
    pos = 0
    for t in ttoks:
        if t.kind == 'id' and t.text in ren:
            out.append(body[pos:t.start])
            out.append(ren[t.text])
            pos = t.end
    out.append(body[pos:])
    return ''.join(out)

# ------------------------------------------------------------------ region assembly

class Region:
    """Result of assembling one //@repo region."""

    def __init__(self):
        self.file = self.kind = self.key = ''
        self.props = []
        self.text = ''
        self.changed = False          # repo text differs from the annotated baseline
        self.renamed = False
        self.stubbed = False
        self.stub_reason = ''
        self.implicit = []            # properties that own the implicit obligations (default C17/C18)
        self.n_exec = 0
        self.n_changed_tokens = 0
        self.hash_repo = self.hash_out = ''
        self.exec_pos = []            # (offset in self.text, repo line) for each exec token
        self.explicit = []            # explicit /*+*/ additions (text)
        self.log = []
        self.out_line0 = 0            # first line in assembled file (filled by caller)
        self.repo_line0 = 0


def stub_region(args, body, reason):
    """A region whose repository text can no longer carry the template's ghost text (lost anchor, syntax of the transplant):
    the function is replaced by an external_body stub with the TEMPLATE's signature and contract, so that the rest of the unit
    can still be verified.  Every property the region serves is reported UNDECIDED by the runner (never OK, never a violation)."""
    r = Region()
    r.file, r.kind, r.key = args[0], args[1], args[2]
    opts = dict(a.split('=', 1) for a in args[3:])
    r.props = [p for p in opts.get('props', '').split(',') if p]
    r.implicit = [p for p in opts.get('implicit', '').split(',') if p]
    r.changed = True
    r.stubbed = True
    r.stub_reason = reason
    toks = tokenize(body)
    k = 0
    while k < len(toks) and not is_id(toks[k], 'fn'):
        k += 1
    j = k
    cut = None
    while j < len(toks):
        t = toks[j]
        if t.kind == 'p' and t.text in '([':
            j = match_close(toks, j)
        elif is_p(t, '{'):
            cut = t.start
            break
        elif is_p(t, ';'):
            break
        j += 1
    if k >= len(toks) or cut is None:
        raise AssembleError('cannot stub %s %s: %s' % (r.file, r.key, reason))
    # attributes / visibility before `fn` stay; explicit markers are harmless comments
    head = body[:cut]
    r.text = '#[verifier::external_body]\n' + head + '{ unimplemented!() } // STUBBED: ' + reason.replace('\n', ' ')[:200] + '\n'
    r.log.append('STUBBED (not verified in this run): ' + reason)
    return r


def crate_mod_of(path):
    m = re.match(r'crates/([a-z_]+)/src/', path)
    if m:
        return 'swiftness_' + m.group(1)
    if path.startswith('cli/'):
        return 'swiftness_cli'
    if path.startswith('proof_parser/'):
        return 'swiftness_proof_parser'
    return ''


def build_region(args, body, features, rules_mod=None):
    r = Region()
    r.file, r.kind, r.key = args[0], args[1], args[2]
    opts = dict(a.split('=', 1) for a in args[3:])
    r.props = [p for p in opts.get('props', '').split(',') if p]
    r.implicit = [p for p in opts.get('implicit', '').split(',') if p]
    cm = opts.get('crate', crate_mod_of(r.file))
    features = code_features(r.file, features)
    src, rtoks, item = locate(r.file, r.kind, r.key, features)
    r.repo_line0 = rtoks[item.start].line
    e_new = normalize(rtoks, item.start, item.end, features, cm, r.log)
    for rule in [x for x in opts.get('rules', '').split(',') if x]:
        import rules
        e_new = rules.apply(rule, e_new, r.log)
    ttoks = tokenize(body)
    mask = ghost_mask(ttoks)
    e_old = [t for t, gm in zip(ttoks, mask) if not gm]
    if texts(e_old) != texts(e_new):
        ren = detect_renames(e_old, e_new)
        if ren:
            body = apply_renames(body, ren)
            ttoks = tokenize(body)
            mask = ghost_mask(ttoks)
            e_old = [t for t, gm in zip(ttoks, mask) if not gm]
            r.log.append('local identifiers renamed in the repository; ghost text follows: %s' % ', '.join('%s->%s' % kv for kv in sorted(ren.items())))
            r.renamed = True
    r.n_exec = len(e_new)
    r.hash_repo = thash(e_new)
    # explicit additions, for the log
    k = 0
    while k < len(ttoks):
        if ttoks[k].kind == 'gon':
            j = k
            while ttoks[j].kind != 'goff':
                j += 1
            r.explicit.append(body[ttoks[k].end:ttoks[j].start].strip())
            k = j
        k += 1
    if texts(e_old) == texts(e_new):
        r.text = body
        # exec token positions
        for t, t2 in zip(e_old, e_new):
            r.exec_pos.append((t.start, t2.line))
        r.hash_out = thash(e_old)
        return r
    # ---------------- transplant
    r.changed = True
    old2new = align(texts(e_old), texts(e_new))
    r.n_changed_tokens = max(len(e_old), len(e_new)) - len(old2new)
    # ghost spans: (k = exec index before which it goes, text)
    spans = []
    k = 0   # exec index
    i = 0
    while i < len(ttoks):
        if mask[i]:
            j = i
            while j < len(ttoks) and mask[j]:
                j += 1
            e_off = ttoks[j - 1].end
            nl = body.find('\n', e_off)
            if nl < 0:
                nl = len(body)
            if re.match(r'^\s*//[^\n]*$', body[e_off:nl]):
                e_off = nl   # keep a trailing label comment with its clause
            spans.append((k, body[ttoks[i].start:e_off]))
            i = j
        else:
            k += 1
            i += 1
    inserts = {}
    for k, txt in spans:
        if k in old2new:
            kn = old2new[k]
        elif k >= len(e_old):
            kn = len(e_new)
        else:
            j = k - 1
            while j >= 0 and j not in old2new:
                j -= 1
            kn = old2new[j] + 1 if j >= 0 else 0
        # an explicit TYPE ANNOTATION (`: T`) that the repository text now contains itself at this very place (the template had
        # to add it on a `let` and a maintainer later wrote it out) is dropped, not duplicated
        st = txt.strip()
        if st.startswith('/*+*/') and st.endswith('/*-*/') and st.count('/*+*/') == 1:
            add = [t.text for t in tokenize(st[5:-5])]
            if len(add) >= 2 and add[0] == ':' and (texts(e_new[kn:kn + len(add)]) == add or (kn >= len(add) and texts(e_new[kn - len(add):kn]) == add)):
                r.log.append('explicit addition `%s` already present in the repository text: not duplicated' % st[5:-5].strip())
                continue
        inserts.setdefault(kn, []).append(txt)
    out = []
    pos = 0
    last_line = None
    prev = None
    for idx, t in enumerate(e_new):
        for txt in inserts.get(idx, []):
            s = '\n' + txt + '\n'
            out.append(s)
            pos += len(s)
        if prev is not None and prev.kind == 'p' and t.kind == 'p' and prev.end == t.start and not inserts.get(idx):
            sep = ''
        else:
            sep = '\n' if (last_line is not None and t.line != last_line) else ' '
        out.append(sep)
        pos += len(sep)
        prev = t
        r.exec_pos.append((pos, t.line))
        out.append(t.text)
        pos += len(t.text)
        last_line = t.line
    for txt in inserts.get(len(e_new), []):
        out.append('\n' + txt + '\n')
    r.text = ''.join(out) + '\n'
    # erasure check on the transplanted text
    ot = tokenize(r.text)
    om = ghost_mask(ot)
    e_chk = [t for t, gm in zip(ot, om) if not gm]
    if texts(e_chk) != texts(e_new):
        raise AssembleError('erasure mismatch after transplant in %s %s' % (r.file, r.key))
    r.hash_out = thash(e_chk)
    r.log.append('repository text differs from annotated baseline: %d tokens; ghost text transplanted' % r.n_changed_tokens)
    return r


def build_verbatim(args, features):
    path, kind = args[0], args[1]
    features = code_features(path, features)
    opts = dict(a.split('=', 1) for a in args[3:])
    cm = opts.get('crate', crate_mod_of(path))
    vis = opts.get('vis', '')
    out = []
    for key in args[2].split(','):
        src, rtoks, item = locate(path, kind, key, features)
        log = []
        e = normalize(rtoks, item.start, item.end, features, cm, log)
        txt = render(e)
        out.append(txt)
    return '\n'.join(out) + '\n'


def render(ts):
    out = []
    last_line = None
    prev = None
    for t in ts:
        if prev is not None and prev.kind == 'p' and t.kind == 'p' and prev.end == t.start:
            pass
        else:
            out.append('\n' if (last_line is not None and t.line != last_line) else ' ')
        out.append(t.text)
        last_line = t.line
        prev = t
    return ''.join(out).strip()


def build_hexconst(args, features):
    path = args[0]
    features = code_features(path, features)
    opts = dict(a.split('=', 1) for a in args[2:])
    vis = opts.get('vis', 'pub')
    out = []
    names = args[1].split(',')
    if names == ['*']:
        src0, rtoks0 = load_repo_file(path)
        names = [it.name for it in parse_items(rtoks0, 0, len(rtoks0)) if it.kind == 'const' and cfg_ok(rtoks0, it.attrs, features)]
    for name in names:
        src, rtoks, item = locate(path, 'const', name, features)
        ts = rtoks[item.start:item.end]
        lits = [t.text for t in ts if t.kind == 'str']
        tys = texts(ts)
        if len(lits) != 1 or 'Felt' not in tys or not ('from_hex_unchecked' in tys or 'felt_hex' in tys):
            raise AssembleError('hexconst %s in %s is not a Felt hex literal constant' % (name, path))
        h = lits[0].strip('"')
        val = int(h, 16) % P
        oname = name.split('::')[-1]
        out.append('#[verifier::external_body] %s exec const %s: Felt ensures %s@ == 0x%xnat { crate::prelude::Felt::stub() }'
                   % (vis, oname, oname, val))
    return '\n'.join(out) + '\n'


def build_hexvec(args, features):
    """`pub fn NAME() -> Vec<Felt> { vec![Felt::from_hex_unchecked("0x.."), ...] }` -> trusted-by-construction contract
    listing every element, literals parsed from the repository text (body shape checked token by token)."""
    path, name = args[0], args[1]
    features = code_features(path, features)
    src, rtoks, item = locate(path, 'fn', name, features)
    lo, hi = item.body
    body = [t for t in rtoks[lo + 1:hi]]
    tx = texts(body)
    if tx[:3] != ['vec', '!', '['] or tx[-1] != ']':
        raise AssembleError('hexvec %s: body is not a vec![..] literal' % name)
    inner = body[3:-1]
    vals = []
    i = 0
    unit = ['Felt', '::', 'from_hex_unchecked', '(']
    while i < len(inner):
        if texts(inner[i:i + 4]) != unit or inner[i + 4].kind != 'str':
            raise AssembleError('hexvec %s: unexpected token %r at line %d' % (name, inner[i].text, inner[i].line))
        vals.append(int(inner[i + 4].text.strip('"'), 16) % P)
        i += 5
        if i < len(inner) and is_p(inner[i], ','):
            i += 1
        if i >= len(inner) or not is_p(inner[i], ')'):
            raise AssembleError('hexvec %s: expected ) at line %d' % (name, inner[i - 1].line))
        i += 1
        if i < len(inner) and is_p(inner[i], ','):
            i += 1
    ens = ['r@.len() == %d' % len(vals)] + ['r@[%d]@ == 0x%xnat' % (k, v) for k, v in enumerate(vals)]
    return '#[verifier::external_body] pub fn %s() -> (r: Vec<Felt>)\n    ensures\n        %s,\n{ unimplemented!() }\n' % (name, ',\n        '.join(ens))


def build_clone(args):
    out = []
    for ty in args[0].split(','):
        out.append('impl Clone for %s { #[verifier::external_body] fn clone(&self) -> (r: Self) ensures r == *self { unimplemented!() } }' % ty)
    return '\n'.join(out) + '\n'


def build_fieldseq(args, features):
    """//@fieldseq <file> <Struct> <field_fn> <seq_fn>: spec functions listing the struct's fields IN DECLARATION ORDER
    (generated from the repository's struct definition on every run: the 'field order' oracle of C13/C19)."""
    path, sname, ffn, sfn = args[0], args[1], args[2], args[3]
    features = code_features(path, features)
    src, rtoks, item = locate(path, 'struct', sname, features)
    # fields: `pub name : usize ,` at depth 1 of the struct body
    a, b = item.body
    fields = []
    k = a + 1
    while k < b:
        if is_p(rtoks[k], '#'):
            k, _ = skip_attrs(rtoks, k)
            continue
        if is_id(rtoks[k], 'pub'):
            k += 1
            continue
        if rtoks[k].kind == 'id' and k + 1 < b and is_p(rtoks[k + 1], ':'):
            name = rtoks[k].text
            j = k + 2
            ty = []
            while j < b and not is_p(rtoks[j], ','):
                ty.append(rtoks[j].text)
                j += 1
            if ''.join(ty) != 'usize':
                raise AssembleError('fieldseq: field %s of %s is not usize' % (name, sname))
            fields.append(name)
            k = j + 1
            continue
        k += 1
    out = ['/// field number i of %s in declaration order (generated from %s)' % (sname, path),
           'pub open spec fn %s(dp: &%s, i: int) -> nat {' % (ffn, sname)]
    for n, f in enumerate(fields):
        out.append('    %sif i == %d { dp.%s as nat }' % ('' if n == 0 else 'else ', n, f))
    out.append('    else { 0 }')
    out.append('}')
    out.append('pub spec const %s_N: nat = %d;' % (ffn.upper(), len(fields)))
    out.append('pub open spec fn %s(dp: &%s) -> Seq<nat> { Seq::new(%d, |i: int| %s(dp, i)) }' % (sfn, sname, len(fields), ffn))
    return '\n'.join(out) + '\n'


def build_parserconsts(args, features):
    """//@parserconsts <file> <layout fn>: the proof parser's own table of layout constants (proof_parser/src/layout.rs,
    `impl LayoutConstants { pub fn <layout>() -> Self { LayoutConstants { name: number, .. } } }`) as spec constants, re-read on
    every run: an INDEPENDENT copy of the layout's column counts inside the repository, used as the oracle of a cross-check."""
    path, lname = args[0], args[1]
    features = code_features(path, features)
    src, rtoks, item = locate(path, 'fn', 'LayoutConstants::' + lname, features)
    ts = rtoks[item.start:item.end]
    vals = {}
    for k, t in enumerate(ts):
        if t.kind == 'id' and k + 2 < len(ts) and is_p(ts[k + 1], ':') and ts[k + 2].kind == 'num':
            vals[t.text] = int(ts[k + 2].text.split('_')[0] if not ts[k + 2].text.startswith('0x') else ts[k + 2].text, 0)
    need = ('num_columns_first', 'num_columns_second', 'constraint_degree', 'cpu_component_step')
    for n in need:
        if n not in vals:
            raise AssembleError('lost anchor: parserconsts %s: field %s not found in %s' % (lname, n, path))
    return ''.join('pub spec const PARSER_%s: nat = %d;\n' % (n.upper(), vals[n]) for n in need)


def build_from_variants(args, features):
    path, ename = args[0], args[1]
    features = code_features(path, features)
    opts = dict(a.split('=', 1) for a in args[2:])
    cm = opts.get('crate', crate_mod_of(path))
    src, rtoks, item = locate(path, 'enum', ename, features)
    lo, hi = item.body
    out = []
    i = lo + 1
    while i < hi:
        j, attrs = skip_attrs(rtoks, i)
        if j >= hi:
            break
        vname = rtoks[j].text
        k = j + 1
        if k < hi and is_p(rtoks[k], '('):
            e = match_close(rtoks, k)
            inner = rtoks[k + 1:e]
            has_from = any(is_id(t, 'from') for t in inner[:6]) and is_p(inner[0], '#')
            if has_from:
                jj, _ = skip_attrs(rtoks, k + 1)
                ty = normalize(rtoks, jj, e, features, cm, [])
                tytxt = ''.join(texts(ty))
                out.append('impl vstd::std_specs::convert::FromSpecImpl<%s> for %s { open spec fn obeys_from_spec() -> bool { true } open spec fn from_spec(e: %s) -> %s { %s::%s(e) } }'
                           % (tytxt, ename, tytxt, ename, ename, vname))
                out.append('impl From<%s> for %s { fn from(e: %s) -> %s { %s::%s(e) } }'
                           % (tytxt, ename, tytxt, ename, ename, vname))
            k = e + 1
        elif k < hi and is_p(rtoks[k], '{'):
            k = match_close(rtoks, k) + 1
        if k < hi and is_p(rtoks[k], ','):
            k += 1
        i = k
    return '\n'.join(out) + '\n'


# ------------------------------------------------------------------ whole unit

DIRECTIVE = re.compile(r'^\s*//@(\w+)\s*(.*)$')


def assemble(fragments, features, out_path, stub_keys=()):
    """fragments: list of template file paths. Returns (regions, info)."""
    regions = []
    out = []
    line_no = 1

    def emit(s):
        nonlocal line_no
        out.append(s)
        line_no += s.count('\n')

    def load(frag, depth=0):
        """template text with //@include <file> expanded (relative to the including file);
        `//@iffeature F` / `//@ifnotfeature F` directly before an include line guards the include"""
        res = []
        src_lines = open(frag).read().split('\n')
        k = 0
        while k < len(src_lines):
            l = src_lines[k]
            g = re.match(r'^\s*//@(iffeature|ifnotfeature)\s+(\S+)', l)
            if g and k + 1 < len(src_lines) and re.match(r'^\s*//@include\s', src_lines[k + 1]):
                on = (g.group(2) in features) == (g.group(1) == 'iffeature')
                if not on:
                    k += 2
                    continue
                k += 1
                l = src_lines[k]
            m = re.match(r'^\s*//@include\s+(\S+)', l)
            if m:
                if depth > 8:
                    raise AssembleError('include depth')
                res += load(os.path.join(os.path.dirname(frag), m.group(1)), depth + 1)
            else:
                res.append(l)
            k += 1
        return res

    for frag in fragments:
        lines = load(frag)
        i = 0
        while i < len(lines):
            m = DIRECTIVE.match(lines[i])
            if not m:
                emit(lines[i] + '\n')
                i += 1
                continue
            d, rest = m.group(1), m.group(2).split()
            if d == 'repo':
                j = i + 1
                while j < len(lines) and not re.match(r'^\s*//@end\b', lines[j]):
                    j += 1
                if j >= len(lines):
                    raise AssembleError('%s:%d //@repo without //@end' % (frag, i + 1))
                body = '\n'.join(lines[i + 1:j]) + '\n'
                try:
                    if (rest[0], rest[2]) in stub_keys and rest[1] == 'fn':
                        r = stub_region(rest, body, 'the transplanted ghost text does not compile on the current repository text')
                    else:
                        r = build_region(rest, body, features)
                except TokError as e:
                    raise AssembleError('%s:%d %s' % (frag, i + 1, e))
                except AssembleError as e:
                    if rest[1] != 'fn' or 'lost anchor' not in str(e) and 'erasure' not in str(e):
                        raise
                    r = stub_region(rest, body, str(e))
                r.template = frag
                emit('// >>> %s %s %s (repo line %d)%s\n' % (r.file, r.kind, r.key, r.repo_line0, ' [CHANGED]' if r.changed else ''))
                r.out_line0 = line_no
                r.out_offset0 = sum(len(s) for s in out)
                emit(r.text)
                r.out_line1 = line_no
                emit('// <<<\n')
                regions.append(r)
                i = j + 1
            elif d == 'verbatim':
                emit(build_verbatim(rest, features))
                i += 1
            elif d == 'hexconst':
                emit(build_hexconst(rest, features))
                i += 1
            elif d == 'hexvec':
                emit(build_hexvec(rest, features))
                i += 1
            elif d == 'debug':
                for ty in rest[0].split(','):
                    emit('#[verifier::external] impl core::fmt::Debug for %s { fn fmt(&self, _f: &mut core::fmt::Formatter<\'_>) -> core::fmt::Result { Ok(()) } }\n' % ty)
                i += 1
            elif d == 'clone':
                emit(build_clone(rest))
                i += 1
            elif d == 'from_variants':
                emit(build_from_variants(rest, features))
                i += 1
            elif d == 'fieldseq':
                emit(build_fieldseq(rest, features))
                i += 1
            elif d == 'parserconsts':
                emit(build_parserconsts(rest, features))
                i += 1
            elif d == 'iffeature':
                # //@iffeature <feat> : next line kept only if feature enabled
                if rest[0] in features:
                    emit(lines[i + 1] + '\n')
                i += 2
            elif d == 'ifnotfeature':
                if rest[0] not in features:
                    emit(lines[i + 1] + '\n')
                i += 2
            else:
                raise AssembleError('%s:%d unknown directive %s' % (frag, i + 1, d))
    text = ''.join(out)
    os.makedirs(os.path.dirname(out_path), exist_ok=True)
    with open(out_path, 'w') as f:
        f.write(text)
    return regions, text


def region_of_line(regions, line):
    for r in regions:
        if r.out_line0 <= line < r.out_line1:
            return r
    return None


def repo_line_of(regions, text, line, col=1):
    """Map an assembled-file position to (region, repo_line) using exec token positions."""
    r = region_of_line(regions, line)
    if r is None:
        return None, None
    # offset of (line, col) in r.text
    rel_line = line - r.out_line0
    ls = r.text.split('\n')
    off = sum(len(x) + 1 for x in ls[:rel_line]) + (col - 1)
    best = None
    for pos, rl in r.exec_pos:
        if pos >= off:
            best = rl
            break
    if best is None and r.exec_pos:
        best = r.exec_pos[-1][1]
    return r, best


if __name__ == '__main__':
    import json
    frs = sys.argv[2:]
    regs, _ = assemble(frs, set(os.environ.get('FEATURES', 'std,recursive,keccak_160_lsb,keccak,stone5').split(',')), sys.argv[1])
    for r in regs:
        print(r.file, r.kind, r.key, 'CHANGED' if r.changed else 'same', r.n_exec, r.hash_repo, r.log)
