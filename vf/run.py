#!/usr/bin/env python3
"""Driver: assemble units from /repo's current text, run Verus, map diagnostics to labelled
obligations and properties, write evidence, print VIOLATION / KNOWN-FINDING lines.

exit 0  every obligation of the property discharged (known findings excepted)
exit 1  a labelled / implicit obligation fails reproducibly (non-resource diagnostic, two solver runs)
exit 2  undecided: lost anchor, unsupported construct, erasure mismatch, rlimit, canary that verifies
"""
import concurrent.futures as cf
import hashlib
import json
import os
import re
import subprocess
import sys
import time

VF = os.path.dirname(os.path.abspath(__file__))
ROOT = os.path.dirname(VF)
sys.path.insert(0, VF)
import assemble as A
import units as U
from rtok import tokenize, find_depth0, match_close, is_p, is_id

_REPO = os.environ.get('VERIF_REPO', '/repo')
# runs against a scratch copy (self-tests with seeded changes) get their own build directory so that they can run concurrently
BUILD = os.path.join(ROOT, 'build') if _REPO == '/repo' else os.path.join(ROOT, 'build', 'scratch_' + re.sub(r'\W+', '_', _REPO).strip('_'))
# evidence of runs against a scratch copy of the repository (VERIF_REPO set by the self-tests) never lands in evidence/
EVID = os.path.join(ROOT, 'evidence') if os.environ.get('VERIF_REPO', '/repo') == '/repo' else os.path.join(BUILD, 'evidence_scratch')
REPLAY = os.path.join(ROOT, 'replays')
KNOWN = os.path.join(ROOT, 'known_findings.json')

LABEL = re.compile(r'\[((?:C\d\d)(?:,C\d\d)*):([^\]]+)\]')
FN_RE = re.compile(r'\bfn\s+([A-Za-z_][A-Za-z0-9_]*)')


class Undecided(Exception):
    pass


# ---------------------------------------------------------------------------- canary variant

def make_canary_text(text, regions):
    """Vacuity guard (ii): after every region function insert a COPY named canary__<fn> whose first ensures clause
    is `false` (the original keeps its contract, so callers are unaffected).  Each copy must FAIL exactly at
    that clause: this shows the precondition is satisfiable and the end of the body is reachable.
    Returns (text, {line: region})."""
    lines = text.split('\n')
    marks = {}
    skipped = []
    # process regions bottom-up so that line numbers of earlier regions stay valid
    for r in sorted([r for r in regions if r.kind == 'fn'], key=lambda r: -r.out_line0):
        if '@' in r.key or getattr(r, 'stubbed', False):
            skipped.append(r.key)
            continue
        seg = '\n'.join(lines[r.out_line0 - 1:r.out_line1 - 1])
        toks = tokenize(seg)
        k = 0
        while k < len(toks) and not is_id(toks[k], 'fn'):
            k += 1
        if k >= len(toks):
            continue
        name = toks[k + 1]
        j = k
        ens = None
        body = None
        while j < len(toks):
            t = toks[j]
            if t.kind == 'p' and t.text in '([':
                j = match_close(toks, j)
            elif is_id(t, 'ensures') and ens is None:
                ens = t
            elif is_p(t, '{'):
                body = t
                break
            elif is_p(t, ';'):
                break
            j += 1
        if body is None:
            continue
        if ens is not None:
            cut = ens.end
            ins = ' /*CANARY*/ false,'
        else:
            cut = body.start
            ins = ' ensures /*CANARY*/ false, '
        seg = seg[:cut] + ins + seg[cut:]
        seg = seg[:name.start] + 'canary__' + seg[name.start:]
        seg_lines = ['// canary copy of ' + r.key] + seg.split('\n')
        at = r.out_line1  # line index (0-based) just after the '// <<<' line
        shift = len(seg_lines)
        marks = {(ln + shift if ln > at else ln): rr for ln, rr in marks.items()}
        for off, l in enumerate(seg_lines):
            if '/*CANARY*/' in l:
                marks[at + 1 + off] = r
        lines[at:at] = seg_lines
    return '\n'.join(lines), marks


AXIOM_CANARY = '''
use vstd::prelude::*;
verus! {
// vacuity guard (i): with every trusted axiom in scope, `false` must NOT be provable.
pub proof fn canary__axioms_consistent()
    ensures /*CANARY*/ false,
{
    broadcast use crate::prelude::group_felt;
    broadcast use crate::prelude::axiom_finv;
    broadcast use crate::prelude::axiom_field_integral;
    broadcast use crate::prelude::axiom_be32;
    broadcast use crate::prelude::axiom_nzfelt_range;
    broadcast use crate::hashes::group_digest_len;
    broadcast use crate::hashes::axiom_poseidon2_inj;
    broadcast use crate::hashes::axiom_poseidon_many_inj;
    broadcast use crate::hashes::axiom_pedersen_inj;
    broadcast use crate::hashes::axiom_keccak_inj;
    broadcast use crate::hashes::axiom_blake_inj;
    broadcast use crate::hashes::axiom_poseidon_many_range;
    broadcast use crate::hashes::axiom_poseidon2_range;
    broadcast use crate::hashes::axiom_pedersen_range;
}
}
'''


# ---------------------------------------------------------------------------- running verus

class UnitResult:
    pass


def run_verus(path, unit, seed=0, rlimit=None, extra_args=''):
    cfg = U.UNITS[unit]
    mem = cfg.get('mem_kb', 32_000_000)
    thr = cfg.get('threads', 8)
    rl = rlimit if rlimit is not None else cfg.get('rlimit', 20)
    cmd = ('ulimit -v %d; ulimit -s unlimited 2>/dev/null; export RUST_MIN_STACK=%d; '
           'exec verus %s --error-format=json --output-json --time --multiple-errors 8 --num-threads %d --rlimit %s '
           '--smt-option smt.random_seed=%d %s'
           % (mem, cfg.get('stack', 64 << 20), path, thr, rl, seed % 1000, cfg.get('extra', '') + ' ' + extra_args))
    t0 = time.time()
    p = subprocess.run(['bash', '-c', cmd], capture_output=True, text=True, cwd=BUILD)
    wall = time.time() - t0
    diags = []
    other = []
    for l in p.stderr.split('\n'):
        l = l.strip()
        if l.startswith('{'):
            try:
                diags.append(json.loads(l))
                continue
            except ValueError:
                pass
        if l:
            other.append(l)
    summary = {}
    try:
        summary = json.loads(p.stdout)
    except ValueError:
        pass
    return dict(cmd=cmd, rc=p.returncode, diags=diags, other=other, summary=summary, wall=wall)


def in_file_span(s, base):
    """the span itself if it lies in the assembled file, else the innermost macro call site that does"""
    seen = 0
    while s is not None and seen < 12:
        if os.path.basename(s.get('file_name', '')) == base:
            return s
        s = (s.get('expansion') or {}).get('span')
        seen += 1
    return None


def primary_span(d, path):
    base = os.path.basename(path)
    for s in d.get('spans', []):
        if s.get('is_primary') and os.path.basename(s['file_name']) == base:
            return s
    # primary span inside a library / macro: fall back to the call site in our file (any span, primary first)
    for s in sorted(d.get('spans', []), key=lambda x: not x.get('is_primary')):
        t = in_file_span(s, base)
        if t is not None:
            return t
    for s in d.get('spans', []):
        if s.get('is_primary'):
            return s
    return None


def span_text(s):
    if not s or not s.get('text'):
        return ''
    parts = []
    for t in s['text']:
        parts.append(t['text'][t['highlight_start'] - 1:t['highlight_end'] - 1])
    return ' '.join(x.strip() for x in parts)


RESOURCE_PAT = re.compile(r'rlimit|resource limit|timed? ?out|memory', re.I)


def classify(msg):
    m = msg.lower()
    if 'postcondition' in m or 'post-condition' in m:
        return 'postcondition'
    if 'requires not satisfied' in m:
        return 'assertion'   # `assert(..) by(..) requires ..` proof hint
    if 'precondition' in m:
        return 'precondition'
    if 'invariant' in m:
        return 'invariant'
    if 'decreases' in m or 'termination' in m:
        return 'termination'
    if 'overflow' in m or 'underflow' in m:
        return 'arithmetic-overflow'
    if 'division by zero' in m or 'divide by zero' in m:
        return 'division-by-zero'
    if 'assertion failed' in m or 'assert' in m:
        return 'assertion'
    if 'unreachable' in m or 'panic' in m:
        return 'panic'
    return 'other'


def enclosing_fn(lines, line):
    i = line - 1
    while i >= 0:
        m = FN_RE.search(lines[i])
        if m and not lines[i].lstrip().startswith('//'):
            return m.group(1)
        i -= 1
    return '?'


def analyse(unit, path, text, regions, res, canary_marks=None):
    """Turn diagnostics into failures.  Returns (failures, undecided_reasons, canary_hits)."""
    lines = text.split('\n')
    failures = []
    undecided = []
    canary_hits = set()
    base = os.path.basename(path)
    for d in res['diags']:
        if d.get('level') != 'error':
            continue
        msg = d.get('message', '')
        if msg.startswith('aborting due to'):
            continue
        ps = primary_span(d, path)
        spans = d.get('spans', [])
        in_file = ps is not None and os.path.basename(ps['file_name']) == base
        kind = classify(msg)
        if RESOURCE_PAT.search(msg):
            if canary_marks is not None:
                # `false` could not be derived within the resource limit: the canary did its job
                fnname = enclosing_fn(lines, ps['line_start'] + 1) if ps else '?'
                if fnname.startswith('canary__'):
                    for ln in canary_marks:
                        if ln >= ps['line_start'] and enclosing_fn(lines, ln) == fnname and ln - ps['line_start'] < 400:
                            canary_hits.add(ln)
                            break
                continue
            undecided.append('resource: %s (line %s)' % (msg, ps and ps['line_start']))
            continue
        if d.get('code') or not in_file and kind == 'other':
            # rustc error (type error, unsupported construct, syntax) -> not a verification verdict
            undecided.append('compile: %s (line %s)' % (msg, ps and ps['line_start']))
            continue
        if kind == 'other':
            undecided.append('unclassified: %s (line %s)' % (msg, ps and ps['line_start']))
            continue
        line = ps['line_start']
        if canary_marks is not None and not in_file:
            continue
        if canary_marks is not None:
            if kind == 'postcondition' and line in canary_marks and '/*CANARY*/' in lines[line - 1]:
                canary_hits.add(line)
            continue
        # label: on the primary line, else on any secondary span line inside our file
        labels = LABEL.findall(lines[line - 1])
        lab_line = line
        if not labels:
            for s in spans:
                if os.path.basename(s['file_name']) == base and not s.get('is_primary'):
                    ll = LABEL.findall(lines[s['line_start'] - 1])
                    if ll and (s.get('label') or '').startswith('failed'):
                        labels = ll
                        lab_line = s['line_start']
                        break
        region, repo_line = A.repo_line_of(regions, text, line, ps['column_start'])
        if kind == 'postcondition':
            # the failed clause may sit on a trait declaration: the function that failed it is where the body / exit span is
            for s2 in spans:
                if not s2.get('is_primary') and os.path.basename(s2['file_name']) == base and ('function body' in (s2.get('label') or '') or 'this exit' in (s2.get('label') or '')):
                    r2, l2 = A.repo_line_of(regions, text, s2['line_start'], s2['column_start'])
                    if r2 is not None and r2 is not region:
                        region, repo_line = r2, l2
                    break
        fn = region.key if region else enclosing_fn(lines, line)
        panic_prop = region.implicit[0] if (region and region.implicit) else 'C18'
        term_prop = region.implicit[0] if (region and region.implicit) else 'C17'
        # where is the failed clause (for preconditions): in vstd / prelude => implicit panic site
        failed_clause_external = any((s.get('label') or '').startswith('failed') is False and False for s in spans)
        ext = [s for s in spans if os.path.basename(s['file_name']) != base]
        props = set()
        label = None
        if labels:
            for pl, name in labels:
                props.update(pl.split(','))
            label = ';'.join(n.strip() for _, n in labels)
        else:
            if kind in ('arithmetic-overflow', 'division-by-zero', 'panic'):
                props.add(panic_prop)
            elif kind == 'termination':
                props.add(term_prop)
            elif kind == 'precondition':
                # callee precondition without label: std/prelude panic site => C18; otherwise the caller's properties
                sec = [s for s in spans if not s.get('is_primary')]
                callee_in_region = any(os.path.basename(s['file_name']) == base and A.region_of_line(regions, s['line_start']) for s in sec)
                # a callee precondition without a label: std / prelude panic site (C18) -- and in any case an
                # obligation of the function it occurs in (e.g. the ordering precondition of Lin + Lin for C16)
                operator_pre = any(os.path.basename(s2['file_name']) == 'ops.rs' for s2 in sec)
                if region and (callee_in_region or operator_pre):
                    props.update(region.props)
                if not callee_in_region:
                    props.add(panic_prop)
            elif kind == 'assertion':
                src = lines[line - 1]
                if re.search(r'\bassert\s*!', src):
                    props.add(panic_prop)
                elif region:
                    # a failed proof step: everything Verus proves after it in this function (its labelled clauses AND its
                    # implicit no-panic obligations) is proved only under the failed assertion
                    props.update(region.props)
                    props.add(panic_prop)
            elif kind == 'invariant' and region:
                props.update(region.props)
                props.add(panic_prop)
            elif region:
                props.update(region.props)
        if not props and region is None:
            # failure inside a non-repository function (lemma / checking harness): it supports the labelled clauses of that function
            k = line - 1
            while k >= 0 and not (FN_RE.search(lines[k]) and not lines[k].lstrip().startswith('//')):
                k -= 1
            for ll in lines[max(k, 0):line]:
                for pl, _n in LABEL.findall(ll):
                    props.update(pl.split(','))
        snippet = span_text(ps)
        failures.append(dict(unit=unit, function=fn, label=label, kind=kind, props=sorted(props), message=msg,
                             out_line=line, repo_file=region.file if region else None, repo_line=repo_line,
                             expr=re.sub(r'\s+', ' ', snippet)[:200],
                             notes=[(s.get('label') or '') + ' @' + os.path.basename(s['file_name']) + ':' + str(s['line_start']) for s in spans if not s.get('is_primary')]))
    # hard errors without JSON diagnostics
    if res['rc'] != 0 and not any(d.get('level') == 'error' for d in res['diags']):
        undecided.append('verus exited %d without diagnostics: %s' % (res['rc'], ' | '.join(res['other'][-3:])))
    return failures, undecided, canary_hits


def obligations_of(unit, text, regions):
    """Labelled clauses + one implicit obligation (panic-freedom, termination, unlabelled clauses) per region fn."""
    obs = []
    lines = text.split('\n')
    for i, l in enumerate(lines, 1):
        for pl, name in LABEL.findall(l):
            r = A.region_of_line(regions, i)
            fn = r.key if r else enclosing_fn(lines, i)
            obs.append(dict(unit=unit, function=fn, label=name.strip(), props=pl.split(','), line=i,
                            text=re.sub(r'\s+', ' ', l.split('//')[0]).strip()[:160]))
    for r in regions:
        if r.kind == 'fn' or (r.kind == 'impl' and r.implicit):
            obs.append(dict(unit=unit, function=r.key, label='<implicit: no panic, no overflow, termination, unlabelled clauses>',
                            props=sorted(set(r.props) | (set(r.implicit) or {'C17', 'C18'})), line=r.out_line0, text=r.file + ':' + str(r.repo_line0)))
    return obs


def scan_assumptions(text):
    out = []
    lines = text.split('\n')
    in_prelude = False
    for i, l in enumerate(lines, 1):
        s = l.strip()
        if s.startswith('//'):
            continue
        if re.search(r'\b(assume|admit)\s*\(', s) or 'external_body' in s or 'assume_specification' in s or re.search(r'\baxiom fn\b', s):
            out.append((i, s[:140]))
    return out


MOD_OPEN = re.compile(r'^\s*pub mod ([A-Za-z_0-9]+)\s*\{\s*$')
MOD_CLOSE = re.compile(r'^\s*\}\s*// mod ([A-Za-z_0-9]+)\s*$')


def module_map(text):
    """line number -> module path ('a::b'), from the `pub mod x {` / `} // mod x` markers of the templates"""
    stack = []
    out = {}
    for i, l in enumerate(text.split('\n'), 1):
        m = MOD_OPEN.match(l)
        if m:
            stack.append(m.group(1))
        out[i] = '::'.join(stack)
        m = MOD_CLOSE.match(l)
        if m and stack and stack[-1] == m.group(1):
            stack.pop()
    return out


ALWAYS_MODULES = ['lemmas', 'numth']


def modules_for(prop, text, regions):
    """modules that contain an obligation of `prop` (labelled clause or region attributed to it)"""
    if prop in ('C17', 'C18') or prop is None:
        return None   # everything
    mm = module_map(text)
    mods = set()
    lines = text.split('\n')
    for i, l in enumerate(lines, 1):
        for pl, _ in LABEL.findall(l):
            if prop in pl.split(','):
                mods.add(mm.get(i, ''))
    for r in regions:
        if prop in r.props:
            mods.add(mm.get(r.out_line0, ''))
    mods.discard('')
    all_mods = set(mm.values())
    for a in ALWAYS_MODULES:
        if a in all_mods:
            mods.add(a)
    return sorted(mods)


def crate_feats(unit_features):
    """per-crate feature sets the repository's Cargo.toml wiring gives when the unit's cargo features are selected on crates/stark"""
    try:
        import featres
        on = featres.resolve(A.REPO, set(unit_features) & featres.top_features(A.REPO))
        return {p: sorted(fs) for p, fs in sorted(on.items())}
    except Exception as e:
        return {'error': str(e)}


def process_unit(unit, seed, want_canary=True, prop=None):
    cfg = U.UNITS[unit]
    path = os.path.join(BUILD, 'u_%s_%s.rs' % (unit, prop or 'all'))
    regions, text = A.assemble(cfg['fragments'], cfg['features'], path)
    text += '\nfn main() {}\n'
    open(path, 'w').write(text)
    out = dict(unit=unit, path=path, regions=regions, text=text)
    mods = modules_for(prop, text, regions)
    if cfg.get('only_modules'):
        mm0 = set(module_map(text).values())
        mods = sorted(m for m in mm0 if any(m == o or m.startswith(o + '::') for o in cfg['only_modules']))
    out['modules'] = mods
    margs = '' if mods is None else ' '.join('--verify-module ' + m for m in mods)
    with cf.ThreadPoolExecutor(2) as ex:
        f_main = ex.submit(run_verus, path, unit, seed, None, margs)
        f_can = None
        if want_canary:
            ctext, marks = make_canary_text(text, regions)
            ctext = ctext.replace('\nfn main() {}\n', AXIOM_CANARY + '\nfn main() {}\n')
            # the axiom canary line
            cl = ctext.split('\n')
            for i, l in enumerate(cl, 1):
                if '/*CANARY*/' in l and i not in marks:
                    marks[i] = None
            cpath = os.path.join(BUILD, 'u_%s_%s_canary.rs' % (unit, prop or 'all'))
            open(cpath, 'w').write(ctext)
            f_can = ex.submit(run_verus, cpath, unit, seed, 5, margs + (' --verify-root' if mods is not None else ''))
        res = f_main.result()
        cres = f_can.result() if f_can else None
    failures, undecided, _ = analyse(unit, path, text, regions, res)
    # compile errors of transplanted ghost text that lie inside function regions: stub exactly those functions (their properties
    # become undecided) and verify the rest of the unit again, instead of leaving every property of the unit undecided
    cerr = [u for u in undecided if u.startswith('compile:') or u.startswith('unclassified:')]
    if cerr and len(cerr) == len(undecided):
        # a syntax error inside one region makes rustc report follow-up errors elsewhere (unresolved names of the module that failed
        # to parse): stub every CHANGED function region that an error points into and try again; whatever remains stays undecided
        bad = set()
        for u in cerr:
            m = re.search(r'\(line (\d+)\)', u)
            rg = A.region_of_line(regions, int(m.group(1))) if m else None
            if rg is not None and rg.kind == 'fn' and rg.changed:
                bad.add((rg.file, rg.key))
        if bad:
            first_reasons = list(undecided)
            regions, text = A.assemble(cfg['fragments'], cfg['features'], path, stub_keys=bad)
            text += '\nfn main() {}\n'
            open(path, 'w').write(text)
            out.update(regions=regions, text=text)
            for rg in regions:
                if rg.stubbed:
                    rg.stub_reason += ' | ' + ' | '.join(first_reasons)[:300]
            res = run_verus(path, unit, seed, None, margs)
            failures, undecided, _ = analyse(unit, path, text, regions, res)
            cres = None   # the canary text was built from the first assembly
    if failures and not undecided:
        # reproducibility: second run, different seed, 4x rlimit
        res2 = run_verus(path, unit, seed + 17, 4 * U.UNITS[unit].get('rlimit', 20), margs)
        f2, u2, _ = analyse(unit, path, text, regions, res2)
        keyf = lambda f: (f['function'], f['label'], f['kind'], f['expr'])
        k2 = {keyf(f) for f in f2}
        flaky = [f for f in failures if keyf(f) not in k2]
        failures = [f for f in failures if keyf(f) in k2]
        out['flaky'] = flaky
        undecided += u2
        out['res2'] = res2
    out.update(res=res, failures=failures, undecided=undecided)
    out['canary'] = None
    if cres is not None:
        _, cund, hits = analyse(unit, cpath, ctext, regions, cres, canary_marks=marks)
        if mods is not None:
            cmm = module_map(ctext)
            marks = {ln: rr for ln, rr in marks.items() if (cmm.get(ln, '') in mods or rr is None)}
        missing = [ln for ln in marks if ln not in hits]
        out['canary'] = dict(total=len(marks), failed_as_expected=len(hits),
                             vacuous=[(marks[ln].key if marks[ln] else 'axioms') + ' (canary line %d)' % ln for ln in missing],
                             undecided=cund, wall=cres['wall'])
    out['obligations'] = obligations_of(unit, text, regions)
    if mods is not None:
        mm = module_map(text)
        out['obligations'] = [o for o in out['obligations'] if mm.get(o['line'], '') in mods]
    out['assumption_sites'] = scan_assumptions(text)
    # the templates mark every assumed stub / function left outside the contracts with a comment: list them verbatim
    notes = []
    tl = text.split('\n')
    for i, l in enumerate(tl):
        m = re.search(r'(\[?ASSUMED[^\n]*|NOT UNDER CONTRACT[^\n]*)', l)
        if m and l.lstrip().startswith('//'):
            nxt = next((x.strip() for x in tl[i + 1:i + 6] if re.search(r'\bfn\b', x)), '')
            fn = FN_RE.search(nxt)
            notes.append((m.group(1).strip() + ((' -> fn ' + fn.group(1)) if fn else ''))[:260])
    out['assumption_notes'] = sorted(set(notes))
    out['stubbed'] = [dict(function=r.key, file=r.file, props=sorted(set(r.props) | (set(r.implicit) or {'C17', 'C18'})), reason=r.stub_reason) for r in regions if r.stubbed]
    return out


# ---------------------------------------------------------------------------- known findings

def load_known():
    if not os.path.exists(KNOWN):
        return dict(findings=[], fixed=[])
    return json.load(open(KNOWN))


def match_known(f, prop, known):
    for k in known.get('findings', []):
        if k['property'] != prop:
            continue
        if k['function'] != f['function']:
            continue
        if k.get('units') and not any(f['unit'] == u or f['unit'].startswith(u + '_') for u in k['units']):
            continue
        if k.get('label') and k['label'] != f['label']:
            continue
        if k.get('kind') and k['kind'] != f['kind']:
            continue
        if k.get('expr') and re.sub(r'\s+', '', k['expr']) != re.sub(r'\s+', '', f['expr']):
            continue
        return k
    return None


# ---------------------------------------------------------------------------- main per property

TRUSTED_BASE = [
    'Verus 0.2026.09.13 + Z3 (soundness of the verifier and of the SMT solver)',
    'A-felt: assumed contracts of starknet-types-core 0.1.5 Felt/NonZeroFelt, num-bigint conversions (prelude/felt.rs)',
    'A-hash: hash functions are uninterpreted functions of their inputs; collision resistance idealised as injectivity only inside binding lemmas (prelude/hash.rs)',
    'A-std: assumed contracts for std items not modelled by vstd (prelude/std.rs), vstd own std specs',
    'A-iter: assumed contracts of hoisted iterator expressions (prelude/hoist.rs, rules.py)',
    'A-clone: derived Clone returns a value equal to the original',
    'extractor (vf/assemble.py): attribute stripping, cfg resolution, crate:: path re-rooting, N3/N4 rewrites as logged',
    'machine integers are modelled exactly (overflow is an obligation); Felt arithmetic is modelled as integers mod P',
]


def check_property(prop, tier, seed, replay=None):
    t0 = time.time()
    os.makedirs(BUILD, exist_ok=True)
    os.makedirs(EVID, exist_ok=True)
    os.makedirs(REPLAY, exist_ok=True)
    pinfo = U.PROPS[prop]
    unit_names = pinfo[tier]
    results = []
    undecided = []
    with cf.ThreadPoolExecutor(max(1, min(len(unit_names), 4))) as ex:
        futs = {ex.submit(process_unit, u, seed, True, prop): u for u in unit_names}
        for fut in cf.as_completed(futs):
            u = futs[fut]
            try:
                results.append(fut.result())
            except (A.AssembleError, A.TokError) as e:
                undecided.append('%s: %s' % (u, e))
    # ---- bounded stand-in for the functions outside the verifier's reach (labelled bounded, never counted as proved; vf/bounded.py)
    bounded = None
    try:
        import bounded as B
        if prop in B.PROPS and os.environ.get('VERIF_BOUNDED', '1') != '0':
            baseline = open(os.path.join(os.path.dirname(os.path.abspath(__file__)), 'BASELINE_COMMIT')).read().strip()
            changed = B.files_changed(A.REPO, baseline)
            if tier == 'thorough' or changed is None or changed:
                bounded = B.run(A.REPO)
                bounded['covered_files_changed_vs_baseline'] = changed
            else:
                bounded = dict(kind='bounded stand-in (never counted as proved)', status='not run in the quick tier: the covered files are byte-identical to commit %s, '
                               'on which the stand-in passes (it is run whenever one of them differs, and always in the thorough tier)' % baseline[:7],
                               items=[dict(item=k, props=v[0], stands_in_for=v[1], bound=v[2], result='not run') for k, v in B.ITEMS.items()], failures=[])
            bounded['items'] = [it for it in bounded.get('items', []) if prop in it['props']]
            bounded['failures'] = [f for f in bounded.get('failures', []) if prop in f['props']]
    except Exception as e:   # the stand-in never changes a verdict by failing to run
        bounded = dict(kind='bounded stand-in (never counted as proved)', status='could not run: %r' % (e,), items=[], failures=[])
    known = load_known()
    obligations = []
    failures = []
    kf_lines = []
    flaky = []
    for r in results:
        undecided += ['%s: %s' % (r['unit'], x) for x in r['undecided']]
        if r['canary']:
            # a canary of a function whose OWN obligation failed verifies trivially (Verus assumes a failed assertion for the rest
            # of the body, and the contradiction with the code makes `false` derivable): expected, reported with the failure
            failing_fns = {f.get('function') for f in r['failures']}
            vac = [v for v in r['canary']['vacuous'] if v.rsplit(' (canary line', 1)[0] not in failing_fns]
            if vac:
                undecided.append('%s: VACUITY canary verified: %s' % (r['unit'], vac))
            undecided += ['%s canary: %s' % (r['unit'], x) for x in r['canary']['undecided']]
        for sb in r.get('stubbed', []):
            if prop in sb['props']:
                undecided.append('%s: %s (%s) could not be re-verified on the current repository text and was stubbed: %s' % (r['unit'], sb['function'], sb['file'], sb['reason'][:300]))
        obligations += [o for o in r['obligations'] if prop in o['props']]
        for f in r['failures']:
            if prop in f['props']:
                failures.append(f)
            elif not f['props']:
                # never drop a verification failure silently: one that cannot be attributed leaves the property undecided
                undecided.append('%s: unattributed verification failure (%s, %s at line %s of %s)' % (r['unit'], f['kind'], f['message'], f['out_line'], os.path.basename(r['path'])))
        flaky += [f for f in r.get('flaky', []) if prop in f['props']]
    real = []
    kf_obl = set()
    for f in failures:
        k = match_known(f, prop, known)
        if k:
            kf_lines.append('KNOWN-FINDING: property=%s %s: %s — %s' % (prop, f['function'], f['label'] or f['expr'], k.get('what', f['message'])))
            kf_obl.add((f['unit'], f['function'], f['label'] or '<implicit: no panic, no overflow, termination, unlabelled clauses>'))
        else:
            real.append(f)
    failed_keys = {(f['unit'], f['function'], f['label'] or '<implicit: no panic, no overflow, termination, unlabelled clauses>') for f in failures}
    n_obl = len(obligations)
    # a labelled precondition fails at the CALL site: the obligation it belongs to is the callee's labelled clause
    failed_labels = {(f['unit'], f['label']) for f in failures if f['label']}
    n_dis = len([o for o in obligations if (o['unit'], o['function'], o['label']) not in failed_keys and (o['unit'], o['label']) not in failed_labels])
    kf_keys = {(f['unit'], f['function'], f['label'] or '<implicit: no panic, no overflow, termination, unlabelled clauses>') for f in failures if match_known(f, prop, known)}
    kf_labels = {(f['unit'], f['label']) for f in failures if f['label'] and match_known(f, prop, known)}
    n_kf_obl = len([o for o in obligations if (o['unit'], o['function'], o['label']) in kf_keys or (o['unit'], o['label']) in kf_labels])
    # ------------------------------------------------ evidence
    fn_under_contract = sorted({'%s::%s (%s)' % (r2.file, r2.key, r['unit']) for r in results for r2 in r['regions'] if r2.kind == 'fn' and (prop in r2.props or prop in ('C17', 'C18')) and (r['modules'] is None or module_map(r['text']).get(r2.out_line0, '') in r['modules'])})
    ex_log = []
    for r in results:
        for r2 in r['regions']:
            if r2.log or r2.explicit or r2.changed:
                ex_log.append(dict(unit=r['unit'], item='%s %s' % (r2.file, r2.key), changed_vs_baseline=r2.changed,
                                   token_hash_repo=r2.hash_repo, token_hash_verified=r2.hash_out,
                                   rewrites=r2.log, explicit_additions=r2.explicit))
    samples = [dict(function=o['function'], label=o['label'], clause=o['text']) for o in obligations[:12]]
    ev = dict(
        property_id=prop, tier=tier, seed=seed, level='proof',
        coverage=dict(
            # proof-level record: `obligations` = the obligations this run CLAIMS (generated minus those that fail and are recorded
            # as known findings, which are listed below and never counted as proved); a violation makes discharged < obligations
            obligations=n_obl - n_kf_obl, discharged=n_dis,
            obligations_generated=n_obl,
            obligations_failing_recorded_as_known_findings=n_kf_obl,
            explanation='obligations = generated (%d) minus obligations that FAIL on this tree and are recorded in known_findings.json (%d; listed under known_findings_matched, printed as KNOWN-FINDING lines, not proved, not claimed); discharged = obligations that Verus proved, reproducibly' % (n_obl, n_kf_obl),
            checker_cmd='; '.join(sorted({r['res']['cmd'].split('exec ')[1] for r in results})) or 'verus',
            trusted_base=TRUSTED_BASE,
            samples=samples,
            units=[dict(unit=r['unit'], features=sorted(U.UNITS[r['unit']]['features']),
                        cfg_features_per_crate_from_cargo_toml=crate_feats(U.UNITS[r['unit']]['features']),
                        verus_summary=r['res']['summary'].get('verification-results'),
                        times_ms=r['res']['summary'].get('times-ms', {}).get('total') if isinstance(r['res']['summary'].get('times-ms'), dict) else None,
                        smt_ms=(r['res']['summary'].get('times-ms', {}) or {}).get('smt', {}).get('total') if isinstance((r['res']['summary'].get('times-ms', {}) or {}).get('smt'), dict) else None,
                        wall_s=round(r['res']['wall'], 2),
                        regions=len(r['regions']), regions_changed_vs_baseline=len([x for x in r['regions'] if x.changed]),
                        canary=r['canary'],
                        assumption_sites=len(r['assumption_sites'])) for r in results],
            functions_under_contract=fn_under_contract,
            backend='Verus 0.2026.09.13 / Z3',
            extraction_log=ex_log,
            known_findings_matched=kf_lines,
            flaky_not_reported=[dict(function=f['function'], label=f['label'], kind=f['kind']) for f in flaky],
            undecided=undecided,
            exhaustive=False,
            bounded_standins=bounded,
        ),
        assumptions=TRUSTED_BASE + pinfo.get('assumptions', []) + sorted({'stub/assumption marked in the templates (%s): %s' % (r['unit'].split('_')[0], n) for r in results for n in r.get('assumption_notes', [])}),
        wall_s=round(time.time() - t0, 2),
        violations=len(real),
    )
    with open(os.path.join(EVID, prop + '.json'), 'w') as f:
        json.dump(ev, f, indent=1)
    for l in kf_lines:
        print(l)
    if undecided:
        for u in undecided:
            print('UNDECIDED property=%s reason=%s' % (prop, u))
    for it in (bounded or {}).get('items', []):
        if it.get('result') in ('ok', 'FAILED'):
            print('BOUNDED-STANDIN property=%s item=%s result=%s %s' % (prop, it['item'], it['result'], '; '.join(it.get('messages', []))[:300]))
    if bounded and bounded.get('status') not in (None, 'ok') and not bounded.get('status', '').startswith('not run') and (bounded.get('covered_files_changed_vs_baseline') or tier == 'thorough'):
        print('UNDECIDED property=%s reason=bounded stand-in %s' % (prop, bounded['status'][:300]))
        undecided.append('bounded stand-in: ' + bounded['status'][:300])
    # ------------------------------------------------ concrete witness (only after the verifier failed / could not decide on CHANGED code)
    any_changed = any(r2.changed for r in results for r2 in r['regions']) or any('lost anchor' in u or 'compile' in u or 'unclassified' in u for u in undecided)
    wit = None
    if (real or undecided) and any_changed and os.environ.get('VERIF_WITNESS', '1') != '0':
        try:
            import witness as W
            wit = W.search(A.REPO)
        except Exception as e:  # the witness search never changes a verdict by failing
            wit = dict(status='witness search failed: %r' % (e,), diffs=[])
    rel = [d for d in (wit or {}).get('diffs', []) if prop in d['props']]
    rel_verdict = [d for d in rel if d.get('level') == 'verdict']
    if real:
        # replay file
        h = hashlib.sha256(json.dumps([(f['function'], f['label'], f['expr']) for f in real], sort_keys=True).encode()).hexdigest()[:10]
        rp = os.path.join(REPLAY, '%s_%s.json' % (prop, h))
        with open(rp, 'w') as f:
            json.dump(dict(property=prop, failed_obligations=real,
                           failing_inputs=dict(how='witness/diff/diff_harness.rs run on the proven baseline %s and on the tree under check (same fixed-seed inputs); '
                                                   'for a functional contract the baseline output is the specification value' % (wit or {}).get('baseline'),
                                               status=(wit or {}).get('status', 'not searched'), cases=rel[:25]) if wit else None,
                           verifier_output=[d.get('rendered') for r in results for d in r['res']['diags']
                                            if d.get('level') == 'error' and any(sp.get('line_start') in {f['out_line'] for f in real} for sp in d.get('spans', []))][:20],
                           how_to_replay='./check %s   (re-runs the verifier on the current tree);  python3 vf/witness.py <repo>   (re-runs the concrete inputs)' % prop), f, indent=1)
        for f in real:
            print('FAILED-OBLIGATION property=%s unit=%s function=%s label=%s kind=%s at %s:%s expr=%s' % (
                prop, f['unit'], f['function'], f['label'], f['kind'], f['repo_file'], f['repo_line'], f['expr']))
        for d in rel[:3]:
            print('FAILING-INPUT property=%s item=%s case=%s level=%s functions=%s' % (prop, d['item'], d['case'], d.get('level'), d['functions']))
        tail = (' failing-input=%s/%s' % (rel[0]['item'], rel[0]['case'])) if rel else ' no-failing-input-found'
        print('VIOLATION property=%s replay=%s obligations=%d%s' % (prop, rp, len(real), tail))
        return 1
    if not real and bounded and bounded.get('failures'):
        bf = bounded['failures']
        h = hashlib.sha256(json.dumps([(f['item'], f['messages']) for f in bf], sort_keys=True).encode()).hexdigest()[:10]
        rp = os.path.join(REPLAY, '%s_%s.json' % (prop, h))
        with open(rp, 'w') as f:
            json.dump(dict(property=prop, failed_obligations=[],
                           decided_by='BOUNDED STAND-IN (not a proof): the functions below are outside the deductive verifier\'s reach; a direct test of the property on the '
                                      'real code (bound stated per item) fails on the tree under check and passes on the baseline',
                           bounded=bounded, how_to_replay='python3 vf/bounded.py <repo>   (' + str(bounded.get('command')) + ')'), f, indent=1)
        for b in bf:
            print('FAILING-INPUT property=%s item=bounded/%s %s' % (prop, b['item'], '; '.join(b['messages'])[:400]))
        print('VIOLATION property=%s replay=%s obligations=0 failing-input=bounded/%s (function outside the verifier\'s reach: decided by the bounded stand-in, a direct test of the property on the real code)' % (prop, rp, bf[0]['item']))
        return 1
    if undecided and rel_verdict:
        # The ghost text no longer applies to the rewritten code, so the obligations could not be re-verified; but the code departs
        # from the proven baseline on concrete inputs in a way the (functional / iff) contracts of this property exclude.
        h = hashlib.sha256(json.dumps([(d['item'], d['case']) for d in rel_verdict], sort_keys=True).encode()).hexdigest()[:10]
        rp = os.path.join(REPLAY, '%s_%s.json' % (prop, h))
        with open(rp, 'w') as f:
            json.dump(dict(property=prop, failed_obligations=[],
                           decided_by='concrete counterexample against the proven baseline: the obligations below could not be re-verified '
                                      '(reasons listed), and on the listed inputs the tree under check returns a different verdict / value than '
                                      'the baseline %s, whose result is the specification value (contracts of the form result == spec, is_ok <==> P)' % wit.get('baseline'),
                           undecided_reasons=undecided, failing_inputs=dict(status=wit.get('status'), cases=rel_verdict[:25]),
                           how_to_replay='python3 vf/witness.py <repo>'), f, indent=1)
        for d in rel_verdict[:3]:
            print('FAILING-INPUT property=%s item=%s case=%s level=%s functions=%s' % (prop, d['item'], d['case'], d.get('level'), d['functions']))
        print('VIOLATION property=%s replay=%s obligations=0 failing-input=%s/%s (obligations not re-verifiable on the rewritten code; decided by replaying concrete inputs against the proven baseline)' % (
            prop, rp, rel_verdict[0]['item'], rel_verdict[0]['case']))
        return 1
    if undecided:
        return 2
    if n_obl == 0:
        print('UNDECIDED property=%s reason=no obligations generated (vacuous check)' % prop)
        return 2
    print('OK property=%s tier=%s obligations=%d discharged=%d%s units=%s wall=%.1fs' % (prop, tier, n_obl - n_kf_obl, n_dis, (' known-finding-obligations=%d' % n_kf_obl) if n_kf_obl else '', ','.join(unit_names), time.time() - t0))
    return 0


def main():
    import argparse
    ap = argparse.ArgumentParser()
    ap.add_argument('prop')
    ap.add_argument('--tier', default=os.environ.get('VERIF_TIER', 'quick'))
    ap.add_argument('--replay')
    a = ap.parse_args()
    seed = int(os.environ.get('VERIF_SEED', '0') or 0)
    if a.replay:
        info = json.load(open(a.replay))
        print(json.dumps(info['failed_obligations'], indent=1))
        rc = check_property(info['property'], a.tier, seed)
        sys.exit(rc)
    if a.prop not in U.PROPS:
        print('unknown or unclaimed property', a.prop)
        sys.exit(2)
    sys.exit(check_property(a.prop, a.tier, seed))


if __name__ == '__main__':
    main()
