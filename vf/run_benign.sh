#!/bin/bash
cd /verif
declare -A P=( [01]=C04 [02]=C05 [03]=C11 [04]=C07 [05]=C06 [06]=C07 [07]=C09 [08]=C10 [09]=C11 [10]=C16 [11]=C08 [12]=C15 [13]=C14 [14]=C12 )
for f in benign/*.diff; do
  n=$(basename $f | cut -c1-2)
  echo "=== $f"
  vf/try_patch.sh $f ${P[$n]},C18 2>&1 | cut -c1-260
done
