"""N4: enumerated rewrites of executable repository text (applied mechanically on every run).

Every rule is a literal token pattern that must occur exactly once in the named item and is replaced by
the given token text.  A rule whose pattern no longer occurs is a LOST ANCHOR (exit 2, never an alarm).
Each rule carries the reason Verus cannot take the original text and what the replacement assumes.

kinds:
  R1  closure-parameter pattern  (`|_|`, `|&x|`): binding a pattern in a parameter is the same as binding it
      first thing in the body; no assumption.
  R2  `(A..B).map(|p| BODY).collect()` whose closure captures a `&mut`  ->  explicit loop with BODY verbatim;
      no assumption beyond std's definition of map/collect on a Range.
  H   hoist: an iterator chain outside vstd's model is replaced by a call to a TRUSTED helper
      (prelude/hoist.rs, `external_body`) whose contract states the std semantics of the chain on
      sequences.  The hoisted expression itself is NOT verified (assumption A-iter).
"""
from rtok import tokenize, Tok


class RuleError(Exception):
    pass


RULES = {
    # ---- transcript
    'H_chain_digest': dict(
        kind='H',
        pattern='vec![&(self.digest + Felt::ONE)].into_iter().chain(val)',
        replace='crate::hoist::chain_digest(&self.digest, val)',
        why='Iterator::chain / vec::IntoIter have no vstd model',
        assumes='yields the sequence [digest + 1] ++ val'),
}


def apply(name, toks, log):
    from assemble import AssembleError
    if name not in RULES:
        raise AssembleError('unknown rewrite rule ' + name)
    r = RULES[name]
    pat = [t.text for t in tokenize(r['pattern'])]
    rep = tokenize(r['replace'])
    txt = [t.text for t in toks]
    hits = [i for i in range(len(txt) - len(pat) + 1) if txt[i:i + len(pat)] == pat]
    if len(hits) != 1:
        raise AssembleError('lost anchor: rewrite rule %s pattern occurs %d times' % (name, len(hits)))
    i = hits[0]
    line = toks[i].line
    new = [Tok(t.kind, t.text, -10**9 + t.start, -10**9 + t.end, line) for t in rep]
    log.append('N4 %s (%s) at line %d: `%s` -> `%s` [%s]' % (name, r['kind'], line, r['pattern'], r['replace'], r.get('assumes', 'no assumption')))
    return toks[:i] + new + toks[i + len(pat):]
