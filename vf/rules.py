"""N4: enumerated rewrites of executable repository text (applied mechanically on every run).

Every rule is a literal token pattern that must occur exactly once in the named item and is replaced by
the given token text.  A rule whose pattern no longer occurs is a LOST ANCHOR (exit 2, never an alarm).
Each rule carries the reason Verus cannot take the original text and what the replacement assumes.

kinds:
  R1  closure-parameter pattern  (`|_|`, `|&x|`): binding a pattern in a parameter is the same as binding it
      first thing in the body; no assumption.
  R2  `(A..B).map(|p| BODY).collect()` whose closure captures a `&mut`  ->  explicit loop with BODY verbatim;
      no assumption beyond std's definition of map/collect on a Range.
  H   hoist: an iterator chain outside vstd's model is replaced by a call to a TRUSTED helper
      (prelude/hoist.rs, `external_body`) whose contract states the std semantics of the chain on
      sequences.  The hoisted expression itself is NOT verified (assumption A-iter).
"""
from rtok import tokenize, Tok


class RuleError(Exception):
    pass


RULES = {
    # ---- transcript
    'H_chain_digest': dict(
        kind='H',
        pattern='vec![&(self.digest + Felt::ONE)].into_iter().chain(val)',
        replace='crate::hoist::chain_digest(&self.digest, val)',
        why='Iterator::chain / vec::IntoIter have no vstd model',
        assumes='yields the sequence [digest + 1] ++ val'),
    # ---- commitment/vector/decommit.rs
    'H_slice_map_collect': dict(
        kind='H',
        pattern='queries.iter().map($F).collect()',
        replace='crate::hoist::slice_map(queries, $F)',
        why='the vstd model of slice::Iter/Map/collect proved unstable (the proof broke when unrelated trait impls entered the solver context)',
        assumes='slice.iter().map(f).collect::<Vec<_>>() applies f to every element in order (stated through the closure\'s own requires/ensures; the closure body itself IS verified)'),
    # ---- commitment/table/decommit.rs
    'H_into_iter_map_collect': dict(
        kind='H',
        pattern='decommitment.values.into_iter().map($F).collect()',
        replace='crate::hoist::vec_map(decommitment.values, $F)',
        why='vec::IntoIter / Map / collect have no vstd model',
        assumes='Vec::into_iter().map(f).collect::<Vec<_>>() applies f to every element in order (stated through the closure\'s own requires/ensures; the closure body itself IS verified)'),
    'H_extend_flat_map_be_bytes': dict(
        kind='H',
        pattern='data.extend_x(slice.iter().flat_map($F))',
        replace='crate::hoist::extend_concat(&mut data, &crate::hoist::slice_map(slice, $F))',
        why='FlatMap has no vstd model',
        assumes='extend(iter.flat_map(f)) appends f(x) for every element x in order (the closure body itself IS verified)'),
    # ---- fri/layer.rs
    'H_drain_query': dict(
        kind='H', pattern='queries.drain(0..1).collect()', replace='crate::hoist::drain_first(queries)',
        why='Drain has no vstd model', assumes='drain(0..1).collect() removes and returns the first element; panics if empty (precondition)'),
    'H_drain_witness': dict(
        kind='H', pattern='sibling_witness.drain(0..1).collect()', replace='crate::hoist::drain_first(sibling_witness)',
        why='Drain has no vstd model', assumes='drain(0..1).collect() removes and returns the first element; panics if empty (precondition)'),
    'H_extend_iter_coset': dict(
        kind='H', pattern='verify_y_values.extend_x(coset_elements.iter())', replace='crate::hoist::extend_from_iter(&mut verify_y_values, &coset_elements)',
        why='Extend<&T> from slice::Iter has no vstd model', assumes='appends copies of the elements in order'),
    # ---- fri/fri.rs
    'R1_map_err_last_layer': dict(
        kind='R1', pattern='.map_err(|_| Error::LastLayerVerificationError)', replace='.map_err(|_e| Error::LastLayerVerificationError)',
        why='Verus closure parameters must be plain identifiers', assumes='no assumption: `_` and an unused named parameter bind the same way'),
    # ---- fri/first_layer.rs
    'R2_enumerate_queries': dict(
        kind='R2',
        pattern='for (index, query) in queries.iter().enumerate() {',
        replace='for index in 0..queries.len() { let query = &queries[index];',
        why='Enumerate and tuple patterns in `for` have no vstd model',
        assumes='std semantics of slice::Iter::enumerate(): yields (i, &s[i]) for i = 0..len in order'),
    # ---- fri/last_layer.rs
    'R3_iter_mut_readonly': dict(
        kind='R3',
        pattern='for query in quries.iter_mut() {',
        replace='for query in quries.iter() {',
        why='iter_mut has no vstd model; the loop body only reads `query` (a body that wrote through it would no longer type-check after the rewrite)',
        assumes='no assumption: for a body that does not write through the item, iter_mut() and iter() visit the same elements in the same order'),
    'R2_rev_loop': dict(
        kind='R2',
        pattern='for coef in coefs.iter().rev() $BODY result }',
        replace='{ let mut i__ = coefs.len(); while i__ > 0 { i__ -= 1; let coef = &coefs[i__]; $BODY } } result }',
        why='Rev has no vstd model',
        assumes='std semantics of slice::Iter::rev(): elements visited from the last to the first'),
    # ---- C16 retyping of the autogenerated evaluators (the only signature-level rewrites)
    'C16_retype_coeffs': dict(
        kind='C16', pattern='constraint_coefficients: &[Felt],', replace='constraint_coefficients: &[crate::coeff::Coeff],',
        why='coefficient-typing contract of property C16', assumes='none (the body must type-check unchanged under the stricter types)'),
    'C16_retype_oods_values': dict(
        kind='C16', pattern='oods_values: &[Felt],', replace='oods_values: &[crate::coeff::OodsVal],',
        why='typing contract of C16 / C01 for the DEEP evaluator: the i-th coefficient weights the opening of the i-th out-of-domain value', assumes='none (the body must type-check unchanged under the stricter types)'),
    'C16_number_values': dict(
        kind='C16', fn='number_values', pattern='let value = $E ;   (every occurrence)', replace='let value = crate::coeff::cv($E, K) ;   (K = ordinal of the statement, from 0)',
        why='typing contract of C16 for the composition evaluator: the K-th computed constraint value can only be weighted by coefficient K (no constraint value dropped, reused or re-weighted)',
        assumes='none (cv is the identity on the field element; the number is ghost bookkeeping)'),
    'C16_retype_ret_comp': dict(
        kind='C16', pattern='global_values: &GlobalValues, ) -> Felt {', replace='global_values: &GlobalValues, ) -> crate::coeff::Lin {',
        why='coefficient-typing contract of property C16', assumes='none'),
    'C16_retype_ret_oods_dyn': dict(
        kind='C16', pattern='dynamic_params: &DynamicParams, ) -> Felt {', replace='dynamic_params: &DynamicParams, ) -> crate::coeff::Lin {',
        why='coefficient-typing contract of property C16 (dynamic layout: the DEEP evaluator has one more parameter)', assumes='none'),
    'C16_retype_ret_oods': dict(
        kind='C16', pattern='trace_generator: &Felt, ) -> Felt {', replace='trace_generator: &Felt, ) -> crate::coeff::Lin {',
        why='coefficient-typing contract of property C16', assumes='none'),
    # ---- air: types.rs (Page::get_product), diluted.rs
    'R4_loop_break_value': dict(
        kind='R4',
        pattern='loop { if $C { break $V; } $REST }',
        replace='{ while !($C) { $REST } $V }',
        why='Verus does not support `break <value>`',
        assumes='no assumption: a loop whose only exit is a leading `if C { break V; }` is `while !C { rest }` followed by V'),
    # ---- air: public_memory.rs (get_hash)
    'H_hash_dynamic_params': dict(
        kind='H',
        pattern='let dynamic_params_vec: Vec<usize> = dynamic_params.clone().into(); hash_data.extend_x(dynamic_params_vec.into_iter().map(Felt::from));',
        replace='hoisted_extend_dynamic_params(&mut hash_data, dynamic_params);',
        why='vec::IntoIter / Map have no vstd model',
        assumes='appends Felt::from(x) for every element x of Vec::<usize>::from(dynamic_params.clone()), in order'),
    'H_hash_segments': dict(
        kind='H',
        pattern='hash_data.extend_x(self.segments.iter().flat_map($F));',
        replace='crate::hoist::extend_concat(&mut hash_data, &crate::hoist::slice_map(&self.segments, $F));',
        why='FlatMap has no vstd model',
        assumes='extend(iter.flat_map(f)) appends f(x) for every element x in order (the closure body itself IS verified)'),
    'H_hash_headers': dict(
        kind='H',
        pattern='hash_data.extend_x( self.continuous_page_headers.iter().flat_map($F), );',
        replace='crate::hoist::extend_concat(&mut hash_data, &crate::hoist::slice_map(&self.continuous_page_headers, $F));',
        why='FlatMap has no vstd model',
        assumes='extend(iter.flat_map(f)) appends f(x) for every element x in order (the closure body itself IS verified)'),
    # ---- air/layout/*/mod.rs (verify_public_input)
    'H_flatten_main_page': dict(
        kind='H',
        pattern='public_input.main_page.iter().flat_map($F).collect::<Vec<Felt>>()',
        replace='crate::hoist::collect_concat(&crate::hoist::slice_map(&public_input.main_page.0, $F))',
        why='FlatMap has no vstd model', assumes='iter().flat_map(f).collect() concatenates f(x) for every element x in order (closure body verified); `.iter()` through the Deref impl of Page is the iteration of field 0'),
    'H_program_cells': dict(
        kind='H',
        pattern='memory.iter().skip($A).step_by(2).take($B).collect()',
        replace='crate::swiftness_air::layout::hoisted_skip_step2_take(memory, $A, $B)',
        why='Skip / StepBy / Take have no vstd model', assumes='yields references to memory[A], memory[A+2], ... : at most B of them, stopping at the end of the vector'),
    'H_fold_program': dict(
        kind='H',
        pattern='program.iter().fold(FELT_0, |acc, &e| pedersen_hash(&acc, e))',
        replace='crate::swiftness_air::layout::hoisted_fold_pedersen_refs(&program)',
        why='fold has no vstd model; closure parameter pattern', assumes='left fold of pedersen_hash over the referenced elements starting from 0'),
    'H_fold_output': dict(
        kind='H',
        pattern='output.iter().skip(1).step_by(2).fold(FELT_0, |acc, e| pedersen_hash(&acc, e))',
        replace='crate::swiftness_air::layout::hoisted_fold_pedersen_odd(output)',
        why='Skip / StepBy / fold have no vstd model', assumes='left fold of pedersen_hash over output[1], output[3], ... starting from 0'),
    # ---- cli/src/transform.rs (parametrised by the receiver: rule name `H_vmap:<receiver>`)
    'H_vmap': dict(
        kind='H',
        pattern='@R.into_iter().map($F).collect()',
        replace='crate::hoist::vec_map_g(@R, $F)',
        why='vec::IntoIter / Map / collect have no vstd model',
        assumes='Vec::into_iter().map(f).collect::<Vec<_>>() applies f to every element in order (stated through the closure\'s own requires/ensures; the closure body itself IS verified)'),
    'H_dyn_values': dict(
        kind='H',
        pattern='self.dynamic_params.values().map(|&f| f as usize).collect()',
        replace='crate::cli_prelude::map_values_usize(&self.dynamic_params)',
        why='BTreeMap::values / Map / collect have no vstd model; closure parameter pattern',
        assumes='yields the map\'s values in key order, each cast with `as usize`'),
    'R5_assert_eq_len': dict(
        kind='R5',
        pattern='assert_eq!($A, $B, $MSG);',
        replace='assert!($A == $B);',
        why='assert_eq! expands to formatting code outside Verus\' subset',
        assumes='no assumption: both panic exactly when the operands differ (the message is dropped)'),
    'T_dynmap': dict(
        kind='T',
        pattern='BTreeMap<String, u32>',
        replace='crate::cli_prelude::DynParamMap',
        why='BTreeMap and String have no vstd model',
        assumes='the map is used only through is_empty() and values() (checked by the type: the stand-in has no other method)'),
    'H_dyn_from': dict(
        kind='H',
        pattern='DynamicParams::from(params)',
        replace='crate::swiftness_air::dynamic::dynamic_params_from(params)',
        why='the From impl is verified as the free function dynamic_params_from (templates/air/dynamic.rs); a trait impl cannot carry its precondition',
        assumes='panics unless exactly 340 values; assigns them to the fields in declaration order'),
    # ---- air/dynamic.rs: the From<Vec<usize>> impl is checked as a free function (a trait impl cannot carry the precondition
    #      that stands for its assert_eq!)
    'T_dyn_from_sig': dict(
        kind='T',
        pattern='fn from(vec: Vec<usize>) -> Self {',
        replace='pub fn dynamic_params_from(vec: Vec<usize>) -> DynamicParams {',
        why='Verus trait impls cannot add a precondition; the assert_eq! of this function is its precondition',
        assumes='DynamicParams::from(v) is this function (callers are rewritten by H_dyn_from)'),
    'T_self_ctor': dict(
        kind='T', pattern='Self {', replace='DynamicParams {',
        why='`Self` has no meaning in the free-function form', assumes='no assumption: Self is DynamicParams in this impl'),
    'T_self_ie': dict(
        kind='T', pattern='interaction_elements: &Self::InteractionElements,', replace='interaction_elements: &InteractionElements,',
        why='the function body is verified as a free function; `Self::InteractionElements` is `InteractionElements` in this impl (type alias read verbatim from the impl)', assumes='no assumption'),
    # ---- stark/commit.rs
    'R1_for_underscore': dict(
        kind='R1', pattern='for _ in 0..n {', replace='for i__ in 0..n {',
        why='Verus for-loops need an identifier pattern', assumes='no assumption: `_` and an unused named variable bind the same way'),
    # ---- stark/oods.rs
    'R2_enumerate_points': dict(
        kind='R2',
        pattern='for (i, &point) in points.iter().enumerate() {',
        replace='for i in 0..points.len() { let point = points[i];',
        why='Enumerate and tuple/reference patterns in `for` have no vstd model',
        assumes='std semantics of slice::Iter::enumerate(): yields (i, &s[i]) for i = 0..len in order; `&point` copies the element'),
    # ---- stark/queries.rs
    'R2_generate_queries': dict(
        kind='R2',
        pattern='(0..n).map(|_| $BODY).collect()',
        replace='{ let mut v__ = Vec::new(); for i__ in 0..n { v__.push($BODY); } v__ }',
        why='the closure captures `transcript: &mut Transcript`; Verus rejects closures capturing &mut',
        assumes='std semantics of Range::map(..).collect::<Vec<_>>(): BODY evaluated once per index in increasing order, results pushed in order'),
}


def _match(pat, txt, i):
    """Match pattern token texts (with $HOLES) against txt starting at i. Returns (end, {hole: (a,b)}) or None.
    A hole matches the shortest balanced run of tokens up to the next literal pattern token at depth 0."""
    holes = {}
    k = i
    pi = 0
    while pi < len(pat):
        pt = pat[pi]
        if pt.startswith('$') and len(pt) > 1:
            nxt = pat[pi + 1] if pi + 1 < len(pat) else None
            depth = 0
            a = k
            while k < len(txt):
                t = txt[k]
                if depth == 0 and nxt is not None and t == nxt and k > a:
                    # try to match the remainder here
                    rest = _match(pat[pi + 1:], txt, k)
                    if rest is not None:
                        holes[pt] = (a, k)
                        holes.update(rest[1])
                        return rest[0], holes
                if t in '([{':
                    depth += 1
                elif t in ')]}':
                    depth -= 1
                    if depth < 0:
                        return None
                k += 1
            return None
        if k >= len(txt) or txt[k] != pt:
            return None
        k += 1
        pi += 1
    return k, holes


def _number_values(name, r, toks, log):
    """every statement `let value = EXPR ;` becomes `let value = crate::coeff::cv(EXPR, K) ;` with K = 0, 1, 2, ... in textual order"""
    from assemble import AssembleError
    out = []
    i = 0
    k = 0
    n = len(toks)
    while i < n:
        if toks[i].text == 'let' and i + 2 < n and toks[i + 1].text == 'value' and toks[i + 2].text == '=':
            j = i + 3
            depth = 0
            while j < n and not (toks[j].text == ';' and depth == 0):
                if toks[j].text in '([{':
                    depth += 1
                elif toks[j].text in ')]}':
                    depth -= 1
                j += 1
            if j >= n:
                raise AssembleError('rewrite rule %s: unterminated `let value =` statement' % name)
            line = toks[i].line
            mk = lambda kind, text, off: Tok(kind, text, -10**9 + off, -10**9 + off + len(text), line)
            out += toks[i:i + 3]
            pre = [('id', 'crate'), ('p', '::'), ('id', 'coeff'), ('p', '::'), ('id', 'cv'), ('p', '(')]
            out += [mk(kd, tx, 10 * q) for q, (kd, tx) in enumerate(pre)]
            out += toks[i + 3:j]
            last = toks[j - 1].line
            out += [Tok('p', ',', -10**9 + 100, -10**9 + 101, last), Tok('num', str(k), -10**9 + 110, -10**9 + 111 + len(str(k)), last), Tok('p', ')', -10**9 + 130, -10**9 + 131, last)]
            out.append(toks[j])
            k += 1
            i = j + 1
            continue
        out.append(toks[i])
        i += 1
    if k == 0:
        raise AssembleError('lost anchor: rewrite rule %s found no `let value =` statement' % name)
    log.append('N4 %s (%s): %d statements `let value = E;` -> `let value = crate::coeff::cv(E, K);` K = 0..%d [%s]' % (name, r['kind'], k, k - 1, r.get('assumes')))
    return out


def apply(name, toks, log):
    from assemble import AssembleError
    param = None
    if ':' in name:
        name, param = name.split(':', 1)
    if name not in RULES:
        raise AssembleError('unknown rewrite rule ' + name)
    r = RULES[name]
    if r.get('fn') == 'number_values':
        return _number_values(name, r, toks, log)
    if param is not None:
        r = dict(r, pattern=r['pattern'].replace('@R', param), replace=r['replace'].replace('@R', param))
    pat = []
    for t in tokenize(r['pattern']):
        if pat and pat[-1] == '$' and t.kind == 'id':
            pat[-1] = '$' + t.text
        else:
            pat.append(t.text)
    txt = [t.text for t in toks]
    hits = []
    for i in range(len(txt)):
        m = _match(pat, txt, i)
        if m is not None:
            hits.append((i, m))
    if len(hits) != 1:
        raise AssembleError('lost anchor: rewrite rule %s pattern occurs %d times' % (name, len(hits)))
    i, (end, holes) = hits[0]
    line = toks[i].line
    new = []
    rep = tokenize(r['replace'])
    j = 0
    while j < len(rep):
        t = rep[j]
        if t.text == '$' and j + 1 < len(rep) and ('$' + rep[j + 1].text) in holes:
            a, b = holes['$' + rep[j + 1].text]
            new += toks[a:b]
            j += 2
            continue
        new.append(Tok(t.kind, t.text, -10**9 + t.start, -10**9 + t.end, line))
        j += 1
    log.append('N4 %s (%s) at line %d: `%s` -> `%s` [%s]' % (name, r['kind'], line, r['pattern'], r['replace'], r.get('assumes', 'no assumption')))
    return toks[:i] + new + toks[end:]
