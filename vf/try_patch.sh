#!/bin/bash
# try_patch.sh <patch file> <props,comma>  -- run checks against a scratch copy of /repo with the patch applied
set -u
ROOT=$(cd "$(dirname "$(readlink -f "$0")")/.." && pwd)
pf=$(readlink -f $1); props=$2
d=$(mktemp -d /tmp/tp_XXXX)
rsync -a --exclude target --exclude .git /repo/ $d/ && (cd $d && patch -p1 -s < $pf) || { echo "PATCH FAILED"; rm -rf $d; exit 3; }
res=""
for p in ${props//,/ }; do
  out=$(cd $ROOT && VERIF_REPO=$d ./check $p 2>&1); rc=$?
  echo "$out" | grep -E "VIOLATION|FAILED-OBLIGATION|UNDECIDED|^OK|error" | grep -v KNOWN | cut -c1-260 | head -8
  res="$res $p:rc=$rc"
done
echo "CHECKS:$res"
rm -rf $d
