"""Unit and property tables.

A unit = prelude + template fragments assembled for one feature set and verified by one Verus process.
"""
import os

VF = os.path.dirname(os.path.abspath(__file__))
T = lambda *names: [os.path.join(VF, 'templates', n) for n in names]
PRE = [os.path.join(VF, 'templates', '00_header.rs')] + [os.path.join(VF, 'prelude', n) for n in ('felt.rs', 'hash.rs', 'std.rs', 'hoist.rs')]

DEFAULT_FEATURES = {'std', 'recursive', 'keccak_160_lsb', 'keccak', 'stone5'}


def feats(layout='recursive', hash_='keccak_160_lsb', stone='stone5'):
    f = {'std', layout, hash_, stone}
    f.add('keccak' if hash_.startswith('keccak') else 'blake2s')
    return f


UNITS = {
    # name: dict(fragments, features, mem_kb (ulimit -v), threads, rlimit)
    'core': dict(fragments=PRE + T('lemmas.rs', 'transcript.rs', 'pow.rs', 'commitment.rs', 'fri.rs', 'air.rs', 'stark.rs'),
                 features=DEFAULT_FEATURES, threads=8),
}

# property -> units per tier
PROPS = {
    'C08': dict(quick=['core'], thorough=['core']),
    'C09': dict(quick=['core'], thorough=['core']),
    'C11': dict(quick=['core'], thorough=['core']),
}
