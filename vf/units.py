"""Unit and property tables.

A unit = prelude + template fragments assembled for one feature set and verified by one Verus process.
"""
import os

VF = os.path.dirname(os.path.abspath(__file__))
T = lambda *names: [os.path.join(VF, 'templates', n) for n in names]
PRE = [os.path.join(VF, 'templates', '00_header.rs')] + [os.path.join(VF, 'prelude', n) for n in ('felt.rs', 'hash.rs', 'std.rs', 'hoist.rs')]

DEFAULT_FEATURES = {'std', 'recursive', 'keccak_160_lsb', 'keccak', 'stone5'}


def feats(layout='recursive', hash_='keccak_160_lsb', stone='stone5'):
    f = {'std', layout, hash_, stone}
    f.add('keccak' if hash_.startswith('keccak') else 'blake2s')
    return f


UNITS = {
    # name: dict(fragments, features, mem_kb (ulimit -v), threads, rlimit)
    'core': dict(fragments=PRE + T('lemmas.rs', 'numth.rs', 'transcript.rs', 'pow.rs', 'commitment.rs', 'fri.rs', 'air.rs', 'stark.rs'),
                 features=DEFAULT_FEATURES, threads=8),
}

def autogen_unit(layout, mem_kb=24_000_000):
    return dict(fragments=PRE + [os.path.join(VF, 'prelude', 'coeff.rs')] + T('lemmas.rs', 'numth.rs', 'transcript.rs', 'pow.rs', 'commitment.rs', 'fri.rs', 'air.rs', 'air/autogen/%s.rs' % layout),
                features={'std', 'keccak_160_lsb', 'keccak', 'stone5', 'assume_fs_nonzero', 'autogen_' + layout},
                threads=1, stack=4 << 30, mem_kb=mem_kb, rlimit=200, only_modules=['swiftness_air_autogen::' + layout])


UNITS['autogen_recursive'] = autogen_unit('recursive')
for _l in ('dex', 'small', 'recursive_with_poseidon', 'starknet'):
    UNITS['autogen_' + _l] = autogen_unit(_l)

# DEEP (OODS) evaluator only; the composition evaluator of this layout (10 k lines) is out of memory reach (DESIGN section 2)
UNITS['autogen_starknet_with_keccak'] = autogen_unit('starknet_with_keccak', mem_kb=50_000_000)
UNITS['autogen_starknet_with_keccak']['stack'] = 2 << 30
# hash / stone variants of the core unit (thorough tier): the templates were written against keccak_160_lsb + stone5, the other
# variants go through the transplant path (cfg resolution selects the other hash constructors / digest windows)
CORE_FRAGS = UNITS['core']['fragments']
for _h, _st in (('keccak_248_lsb', 'stone5'), ('blake2s_160_lsb', 'stone6'), ('blake2s_248_lsb', 'stone6'), ('keccak_160_lsb', 'stone6')):
    UNITS['core_%s_%s' % (_h, _st)] = dict(fragments=CORE_FRAGS, features=feats('recursive', _h, _st), threads=8)
VARIANTS = [u for u in UNITS if u.startswith('core_')]

LIGHT_LAYOUTS = ('dex', 'dynamic', 'recursive_with_poseidon', 'small', 'starknet', 'starknet_with_keccak')
for _l in LIGHT_LAYOUTS:
    UNITS['layout_' + _l] = dict(fragments=PRE + T('lemmas.rs', 'numth.rs', 'transcript.rs', 'pow.rs', 'commitment.rs', 'fri.rs', 'air.rs'),
                                 features={'std', 'keccak_160_lsb', 'keccak', 'stone5', 'light_' + _l}, threads=4,
                                 only_modules=['swiftness_air::layout::' + _l])

# C19 (transform.rs part): the core templates provide the verifier-side types; only the cli module is verified in this unit
UNITS['cli'] = dict(fragments=PRE + [os.path.join(VF, 'prelude', 'cli.rs')] + T('lemmas.rs', 'numth.rs', 'transcript.rs', 'pow.rs', 'commitment.rs', 'fri.rs', 'air.rs', 'stark.rs', 'cli.rs'),
                    features=DEFAULT_FEATURES, threads=8, only_modules=['swiftness_cli::transform', 'swiftness_air::dynamic'])

# "mid" layout units: the light unit plus validate_public_input / verify_public_input under the C14 / C18 contracts
MID_LAYOUTS = ('dex', 'small', 'recursive_with_poseidon', 'starknet', 'starknet_with_keccak', 'dynamic')   # dynamic: verify_public_input only
for _l in MID_LAYOUTS:
    UNITS['layoutmid_' + _l] = dict(fragments=PRE + T('lemmas.rs', 'numth.rs', 'transcript.rs', 'pow.rs', 'commitment.rs', 'fri.rs', 'air.rs'),
                                    features={'std', 'keccak_160_lsb', 'keccak', 'stone5', 'mid_' + _l}, threads=4,
                                    only_modules=['swiftness_air::layout::' + _l])
UNITS['layoutmid_dynamic']['rlimit'] = 60   # validate_public_input of the dynamic layout: one query with about 60 exits (uses about a third of this)

# property -> units per tier, claim text for the manifest
PROPS = {
    'C01': dict(quick=['core'], thorough=['core'],
                claim='StarkProof::verify is proved to return Ok only if the predicate `accepted` holds: config_ok (C11, integer reading, blow-up >= 2, FRI input = evaluation domain), public input valid, every challenge equal to its Fiat-Shamir spec value, OODS vector of exactly MASK_SIZE+DEGREE values with composition-from-trace == claimed composition AT THE POSITIONS THE DEEP EVALUATION READS, all three table decommitments against the committed roots, FRI input values = DEEP combination of the DECOMMITTED cells with the SAME oods vector, every inner FRI layer decommitted against its root, last layer of 2^bound coefficients agreeing at every query. Generic in the layout through trait-level contracts.',
                technique='chain of contracts verify -> validate, StarkDomains::new, get_hash, stark_commit -> (traces_commit, table_commit, verify_oods, fri_commit, pow commit), generate_queries, stark_verify -> (traces_decommit, table_decommit, queries_to_points, eval_oods_boundary_poly_at_points, fri_verify -> layers); per-layout units check every layout impl against the trait contracts (name-based oracle for the global values of the composition wrappers, typing contract of the DEEP evaluators); bounded stand-in (labelled bounded, vf/bounded.py) for the dynamic DEEP evaluator and check_asserts',
                note='Not decided: that `accepted` implies existence of a satisfying trace except with negligible probability (DEEP-ALI/FRI soundness, random-oracle Fiat-Shamir). Layout impls are checked against the trait contracts in the layout units: trace commit / decommit, DEEP wrapper and column counts for all 7 layouts; for the 6 static layouts also the eval_composition_polynomial wrapper, where EVERY global value handed to the autogenerated constraint evaluator is proved equal to the one its field name denotes (oracle gv_spec built by field name: initial_<b>_addr = begin of segment <B>, interaction elements, curve constants, periodic-column points, the two C15 boundary values); the DEEP evaluators bind out-of-domain value i to coefficient i (autogen units). Not under contract: the dynamic layout\'s two autogenerated evaluators and check_asserts; a BOUNDED STAND-IN (vf/bounded.py, never counted as proved) tests on the real code that the dynamic DEEP combination binds out-of-domain value k to coefficient k for all 943 positions at one pseudo-random point, and that check_asserts rejects each of the 80 column parameters at the first index outside its trace (parameters of the repository example proof).'),
    'C02': dict(quick=['core'], thorough=['core'],
                claim='Tamper-evidence is reduced to machine-checked exact characterisations of every check that reads a proof position: configuration numbers (C11 <=>), vector lengths (oods = MASK+DEGREE exactly, cells = columns x queries exactly, last layer = 2^bound exactly, one FRI root and witness per layer at least, one value per query), decommitted cells / authentication nodes / FRI leaves / roots (table and vector decommitment <=> the Merkle walk yields the committed root; inner FRI layers included), commitments, OODS values, coefficients, nonce and public-input fields (the transcript state is proved to be the absorb chain of exactly these messages in protocol order, so every later challenge is a function of them).',
                technique='the union of the exact (<=>) postconditions and transcript-script postconditions along the verified call chain of StarkProof::verify',
                note='Not decided: the literal per-mutant claim "the mutant is rejected" needs (i) hash collision resistance (idealised as injectivity, Merkle binding lemmas not mechanised in this session) and (ii) "a changed challenge leads to rejection except with negligible probability" (probabilistic). Unused trailing vector elements are tolerated, as the statement allows.'),
    'C04': dict(quick=['core'], thorough=['core'],
                claim='vector_commitment_decommit is proved to succeed exactly when the work-list walk of the statement (spec function root_spec: siblings merged when adjacent, otherwise one authentication node consumed, parents appended, hash chosen by depth vs friendly-layer count, masked hash = low 160/248 bits of H(be32(x)||be32(y))) yields the committed root; missing node <=> Err. Machine-checked lemmas about that walk: COMPLETENESS (pending entries that are nodes of any hash tree obeying the friendly-layer rule + that tree\'s sibling nodes as authentication values ==> the walk yields the tree\'s root) and BINDING (two well-formed openings of the same positions with the same root have the same queried values and the same authentication nodes, under the explicit hypothesis that the node hash is collision free). All four hash variants are checked on every run.',
                technique='functional postconditions (code == spec walk) on vector_commitment_decommit, compute_root_from_queries (with termination measure), hash_friendly_unfriendly; verified lemmas lemma_complete, lemma_binding with non-vacuity checks (templates/commitment/vector_merkle_lemmas.rs)',
                note='Not mechanised: that the walk over a sorted set of distinct in-range leaf indices reads every entry (the well-formedness hypothesis reads_all of the binding lemma), and collision freeness of the truncated hashes (idealisation).'),
    'C05': dict(quick=['core'], thorough=['core'],
                claim='table_decommit is proved to succeed exactly when the column count fits u32, cells = columns x queries, and the vector decommitment of the row leaves (Montgomery cells; single column unhashed; poseidon_many or masked digest of concatenated be32 cells chosen by the depth height+1 friendly rule) succeeds.',
                technique='exact (<=>) postcondition on table_decommit, functional postcondition + loop invariant on generate_vector_queries',
                note='The two iterator chains (into_iter().map().collect(), extend(flat_map)) enter through hoisting rules with assumed std semantics (A-iter).'),
    'C06': dict(quick=['core'], thorough=['core'],
                claim='(i) The FRI verifier functions are proved equal to mathematical walks: fri_formula2/4/8/16 = the k-fold composition fold_spec of the one-step fold (omega constants proved to be inverse subgroup generators, the 16 group literals proved to be the order-16 subgroup in bit-reversed order); coset gathering, next-layer computation, Horner evaluation and first-layer translation match their specs. (ii) THE FOLD IDENTITY of the statement is machine-checked for fold_spec, k = 1..4: for every coefficient vector c, base point x, challenge b, folding the honest coset values V_k(x) (V_1(x) = [P(x), P(-x)], V_k(x) = V_(k-1)(x) ++ V_(k-1)(x*g_k)) yields 2^k * F(x^(2^k)) where coefficient i of F is sum_(j<2^k) b^j * c[2^k*i + j], i.e. F = sum_j b^j P_j. (iii) the verifier-side exact characterisations (layers, last layer, lengths) that completeness rests on carry the C06 label as well.',
                technique='functional postconditions + loop invariants on fri_formula*, compute_coset_elements, compute_next_layer, horner_eval, gather_first_layer_queries; compute_only lemmas for constants; verified lemma chain lemma_split, lemma_combine, lemma_fold_step, lemma_fold_identity, lemma_fold_poly_coeff (templates/fri/fold_identity.rs: integer identities reduced mod P)',
                note='Not decided: end-to-end acceptance of an honest prover (needs a prover model: Merkle tree construction, transcript).'),
    'C07': dict(quick=['core'], thorough=['core'],
                claim='fri_verify is proved to return Ok exactly when: one value per query; for EVERY inner layer the gathered coset rows decommit against that layer\'s root (table_decommit_ok) and fold to the next layer; the last layer has exactly 2^bound coefficients; the coefficient polynomial evaluated at 1/x_inv equals the folded value at every surviving query. Missing witness leaves / layers give Err.',
                technique='exact (<=>) postconditions on fri_verify, fri_verify_layers (spec layers_walk), verify_last_layer, compute_next_layer',
                note='Not decided: rejection of functions of degree >= bound except with probability decaying in the number of queries (FRI soundness theorem).'),
    'C13': dict(quick=['core'], thorough=['core'],
                claim='PublicInput::get_hash is proved to return poseidon_many of exactly the sequence listed in the statement, in order: [nvf (stone6)] ++ [log_n_steps, rc_min, rc_max, layout] ++ dynamic params ++ flattened segments ++ [padding addr, padding value, n_pages, main page length, pedersen chain of the main page incl. 2*len] ++ flattened (start,size,hash) headers; prod is not bound. The 340 dynamic parameters are proved to be flattened in declaration order (oracle generated from the struct definition on every run). Machine-checked binding lemma, under the idealisation that Poseidon and Pedersen are injective: two public inputs with the same number of segments and dynamic parameters present in both or neither that have EQUAL seeds agree on the head fields, every dynamic parameter, every segment bound, the padding cell, the main-page length and every main-page address and value, the number of continuous pages and every header\'s address, size and hash (both Stone versions are checked on every run).',
                technique='functional postcondition + loop invariant (pedersen chain) on PublicInput::get_hash; contracts on both From impls of DynamicParams; verified lemma lemma_seed_binds_every_field (templates/air/public_input_binding.rs). The Stone 5 / Stone 6 alternative of the code is selected the way cargo selects it: the features each crate receives are resolved from the repository\'s Cargo.toml files on every run (vf/featres.py, unit features = features selected on crates/stark), while the spec side follows the unit\'s declared configuration, so a manifest that forwards the wrong feature fails the postcondition of the stone6 unit',
                note='The three iterator statements enter through hoisting rules with assumed std semantics. Hash injectivity is an idealisation (opt-in axioms). Not decided: reproduction of the prover\'s first challenges (recorded data).'),
    'C14': dict(quick=['core'], thorough=['core'],
                claim='For the six static layouts (recursive, dex, small, recursive_with_poseidon, starknet, starknet_with_keccak) validate_public_input is proved to accept EXACTLY the inputs satisfying the memory-layout oracle pi_ok of the layout (step count = trace length/16, segment count, layout code, 0<=rc_min<rc_max<=2^16-1, output usage below 2^128, every builtin usage a whole number of instances not exceeding floor(trace_length/row_ratio), with the per-layout table of segments / cells per instance / row ratios), for every trace length (this holds since fix d0bb0cf; before it three obligations failed). verify_public_input: no panic for any input (since fixes 9ea2566, 7494f86) and the positional facts the code establishes; the address-based reading of the returned hashes demanded by the statement FAILS on the current tree in every layout: recorded as known findings with a concrete witness.',
                technique='exact (<=>) and per-conjunct postconditions on LayoutTrait::validate_public_input / verify_public_input of each layout, field-division lemma lemma_builtin_checked; per-layout oracles generated from the layout constants (vf/gen_layout_mid.py)',
                note='Dynamic layout: validate_public_input is under contract in the direction accept ==> rules (dynamic parameters present, step count x 16 x cpu_component_step = trace length as integers, segment count, layout code, range-check bounds, and per builtin: an unused builtin has an empty segment, a used one has a non-zero row ratio and a whole number of instances not exceeding floor(trace_length/row_ratio)); its body is verified as a free function with the same tokens (the trait-level <=> needs the 3.4 k-line generated check_asserts, which is assumed: a single query beyond the resource limit, probes/dynamic_check_asserts_template.rs). A mutation that makes this function\'s false postcondition hard to refute shows up as UNDECIDED (exit 2), not as a violation. The iterator chains of verify_public_input enter through hoisting rules (A-iter).'),
    'C15': dict(quick=['core'], thorough=['core'],
                claim='get_diluted_product is proved (i) to compute the log-step doubling recurrence (p,q,x,diff_x) after n_bits-1 steps and to terminate, and (ii) by a machine-checked lemma chain to equal r_(2^n_bits) of the DEFINING recurrence r_1 = 1, r_(j+1) = r_j*(1+z*u_j) + alpha*u_j^2 over all 2^n_bits diluted values (u_j = Dilute(j) - Dilute(j-1), digit weight 2^spacing), for every n_bits in 1..=64, spacing, z, alpha: integer identity for every base (periodicity of u, block composition), then reduction mod P. Page::get_product, get_continuous_pages_product, get_public_memory_product(_ratio) are proved equal to z^size / (product over all public cells of (z - (addr + alpha*value)), page products for continuous pages, times the padding factor to the power size - total). CALL SITES: in the eval_composition_polynomial wrapper of each of the six static layouts the two boundary values handed to the constraint evaluator are proved to be memory_ratio_spec over the layout\'s memory column (trace length / PUBLIC_MEMORY_STEP) at the memory interaction elements, and diluted_spec(16, 4, z, alpha) at the diluted interaction elements (the statement\'s (n_bits, spacing); dex and small have no diluted check); the same two assertions hold in the dynamic layout\'s wrapper (memory column = (trace length / memory_units_row_ratio) / 8; body verified as a free function).',
                technique='loop invariants on Page::get_product, get_continuous_pages_product, get_diluted_product; functional postconditions on the memory product functions; verified lemmas lemma_dil_shift, lemma_u_periodic, lemma_block, lemma_diluted_doubling, lemma_state, lemma_diluted_is_recurrence (templates/air/diluted_lemma.rs); labelled assertions at the call sites in the layoutmid units (vf/gen_layout_mid.py)',
                note='The in-function assert! (total length <= column size) and the two field divisions are C18 obligations of the callers (one known finding). n_bits > 64 is outside the contract (every layout passes the constant 16).'),
    'C08': dict(quick=['core'], thorough=['core'],
                claim='Every Transcript operation is proved equal to a spec of the absorb/squeeze state machine (squeeze = poseidon(digest,counter), counter+1; absorb = poseidon_many([digest+1]++msg), counter reset); protocol functions are proved to perform exactly the scripted operations in order (so every challenge is a function of the seed and of exactly the messages absorbed before it, and of nothing later). Machine-checked dependence lemmas under the idealisation that Poseidon is injective: a challenge determines digest and counter; challenges drawn without an intervening message are pairwise different; the digest the queries are drawn from determines the seed and EVERY commit-phase message (trace roots, composition root, each out-of-domain value and their number, each FRI root, each last-layer coefficient and their number, the nonce), i.e. changing any one of them changes it.',
                technique='postconditions over the transcript state machine on Transcript::*, pow commit, generate_queries; verified lemmas lemma_absorb1_inj, lemma_absorb_vec_inj, lemma_rounds_inj, lemma_consecutive_challenges_differ, lemma_commit_digest_binds_every_message (templates/stark/fs_lemmas.rs)',
                note='Not decided: agreement with challenges logged by the prover (recorded data). Hash injectivity is an idealisation (opt-in axioms, used only by the dependence lemmas; a vacuity canary checks that all axioms together do not prove false).'),
    'C09': dict(quick=['core'], thorough=['core'],
                claim='verify_pow is proved to accept exactly when H(H(0x0123456789abcded||digest||n)||nonce) STARTS WITH n ZERO BITS (bit-level definition: bit i = bit 7-(i mod 8) of byte i div 8), through the machine-checked lemma that this is the comparison the code performs, be_nat(hash[0..16]) < 2^(128-n); Config::validate accepts exactly 20..=50; commit checks the pre-state digest and absorbs the nonce only on success.',
                technique='exact (<=>) postconditions on verify_pow, pow::Config::validate, UnsentCommitment::commit; verified lemmas lemma_byte, lemma_leading_zero_bits, lemma_threshold_is_zero_bits (templates/pow_bits.rs)',
                note='H is an uninterpreted function of the byte string for each hash feature.'),
    'C10': dict(quick=['core'], thorough=['core'],
                claim='generate_queries is proved to return a strictly increasing, in-range sequence of at most n indices whose set is exactly the sampled set (a spec function of the transcript); queries_to_points maps index q to 3*w^bitreverse_k(q) and errors instead of panicking.',
                technique='loop invariants + sort/dedup lemmas on generate_queries (verified modulo rewrite R2), queries_to_points',
                note='Vec::sort/dedup semantics assumed (A-std). Not decided: equality with the prover-logged indices.'),
    'C11': dict(quick=['core'], thorough=['core'],
                claim='StarkConfig::validate (with pow, trace, vector, FRI config validation) is proved to accept exactly the configurations satisfying the integer-reading oracle config_ok written from the property statement, one labelled clause per conjunct in both directions.',
                technique='exact (<=>) postconditions with loop invariant on fri::Config::validate, StarkConfig::validate, trace/vector/pow Config::validate',
                note=''),
    'C12': dict(quick=['core'], thorough=['core'],
                claim='StarkDomains::new is proved to return sizes 2^(t+c), 2^t and generators 3^((P-1)/2^k); verified number-theory lemmas show gen(k)^(2^k)=1, gen(k)^(2^j)!=1 for j<k, hence (lemma_order_exactly_pow2, by halving induction) that 2^k is the LEAST positive exponent giving 1: is_order(eval_generator, 2^(t+c)), is_order(trace_generator, 2^t); and trace_generator = eval_generator^(2^c), for all t+c<=192.',
                technique='postcondition on StarkDomains::new + machine-checked lemmas (pow laws, 2-adic structure of P-1, compute_only for 3^(P-1), 3^((P-1)/2))',
                note='P prime enters only through the trusted field axioms (A-felt); the order statement itself needs no primality.'),
}

_LIGHT = ['layout_' + _l for _l in LIGHT_LAYOUTS]
PROPS['C08']['quick'] = ['core'] + _LIGHT
PROPS['C08']['thorough'] = ['core'] + _LIGHT
PROPS['C01']['thorough'] = ['core'] + _LIGHT
PROPS['C02']['thorough'] = ['core'] + _LIGHT
PROPS['C01']['quick'] = ['core'] + _LIGHT   # trace commit / decommit / DEEP-call wrappers of every layout on every change (seconds each)
PROPS['C02']['quick'] = ['core'] + _LIGHT
PROPS['C16'] = dict(quick=['core', 'autogen_recursive'], thorough=['core', 'autogen_recursive', 'autogen_dex', 'autogen_small', 'autogen_recursive_with_poseidon', 'autogen_starknet', 'autogen_starknet_with_keccak'],
    claim='For each layout covered, the UNCHANGED bodies of the autogenerated composition and DEEP evaluators type-check with the coefficient vector retyped to an abstract Coeff (usable only as one factor of a product with a field element) and the result retyped to a linear form, and the ghost contract proves every coefficient position 0..N-1 is used exactly once, in order, with no constant part; in the composition evaluators every statement `let value = E;` is numbered (rule C16_number_values: `cv(E, K)`) and `Coeff * CVal` requires position == K, so the K-th computed constraint value is weighted by coefficient K and by no other (no constraint value dropped, reused or re-weighted); in the DEEP evaluators coefficient i can only weight the quotient built from out-of-domain value i; powers_array is proved to return alpha^i, and stark_commit to pass N_CONSTRAINTS resp. MASK_SIZE+DEGREE of them. Index obligations show the evaluators read exactly mask/oods positions within the checked lengths.',
    technique='typing + ghost-state contract (lo, hi, count, czero; CVal / OodsVal / Term position types) on eval_composition_polynomial_inner / eval_oods_polynomial_inner extracted with signature-level rewrites and one statement-level wrapper (identity on the value); for the three evaluators outside the verifier\'s reach a bounded stand-in (cargo property test on the real code, labelled bounded, vf/bounded.py); functional postcondition on powers_array',
    note='Not decided: that each term is not identically zero (needs a witness evaluation per constraint). Divisions inside the evaluators are assumed non-zero (A-fs-nonzero). Layout coverage: recursive, dex, small, recursive_with_poseidon, starknet (both evaluators, quick and thorough); starknet_with_keccak DEEP evaluator only (thorough, 5 min, 17 GB); the starknet_with_keccak composition evaluator and both dynamic-layout evaluators are NOT under contract (memory; the dynamic DEEP evaluator was generated and needs 35 GB and more than rlimit 200). For those three functions a BOUNDED STAND-IN runs (vf/bounded.py, labelled bounded in the evidence, never counted in obligations): a direct test of the property on the real code at one pseudo-random point - every unit coefficient vector gives a non-zero value, no two positions weight the same quantity, the map is linear with zero constant part, (DEEP) out-of-domain value k is bound by coefficient k and not read by coefficient k+1, (dynamic) switching any one builtin on or off changes the combination. It runs in the thorough tier, and in the quick tier whenever one of the covered files differs from the baseline commit.')
PROPS['C17'] = dict(quick=['core'], thorough=['core'],
    claim='Every loop and recursive function under contract has a machine-checked decreases clause (Verus rejects the unit otherwise) and labelled trip-count bounds tied to validated constants or the length of supplied data: queries <= 48 (config), FRI layers <= 14, coset <= 16, layer loop <= |queries|, Merkle walk consumes a node or two entries per step, Horner = |coefficients|, page product = |main page|, diluted = n_bits-1 <= 63.',
    technique='decreases clauses and loop invariants on every loop of the functions under contract (termination is an obligation of each unit)',
    note='Library loops (Poseidon, Pedersen, pow_felt <= 252 squarings, bigint conversions) are trusted fixed-size code. random_felts_to_prover loops in proportion to a field value (flagged; it has no caller on the verifier path). The sum over the call graph is a table, not a mechanised theorem.')
PROPS['C18'] = dict(quick=['core'], thorough=['core'],
    claim='Every index, slice, unwrap/expect, assert!, panic!, integer overflow and zero-divisor site in the functions under contract is a discharged obligation; StarkProof::verify (generic layout) has no precondition beyond a 64-bit usize and a header count below usize::MAX. Interior functions require only what their callers are proved to establish.',
    technique='implicit panic-freedom obligations generated by Verus for every function under contract, interior preconditions discharged along the verified call chain; bounded stand-in (labelled bounded, vf/bounded.py) for check_asserts of the dynamic layout',
    note='Division by the evaluation of a domain polynomial at a Fiat-Shamir point inside the autogenerated evaluators is assumed non-zero (A-fs-nonzero). Layout-specific functions: wrappers, validate_public_input and verify_public_input of all 7 layouts (dynamic: validate as a free-function copy, check_asserts assumed not to panic; its divisors are guarded by the preceding power-of-two checks - one of them, 16 * keccak_row_ratio, only semantically; the bounded stand-in vf/bounded.py also checks that it does not panic on the 164 perturbed parameter sets), safe_div; see evidence for known findings.')

PROPS['C19'] = dict(quick=['cli'], thorough=['cli'],
    claim='PART of C19, the conversion step only: every `impl TransformTo` of cli/src/transform.rs (24 impls) is proved to carry each field of the parsed proof to the verifier-side field of the same name with the same non-negative integer value, vectors with the same length and order (config numbers, public input, segments, main page cells, commitments, OODS values, FRI roots / coefficients / leaves, decommitted values, authentication nodes); misfit handling (difficulty > 255, nonce >= 2^64 or 0, dynamic-parameter count, continuous page headers) shows up as failed obligations recorded as known findings.',
    technique='per-field postconditions on each TransformTo impl + trait-level relation same_as; parser-side struct definitions extracted verbatim from proof_parser/src/stark_proof.rs',
    note='NOT decided (outside the reach of a deductive verifier here): the JSON / annotation parser itself (serde_json, regex extraction of annotation lines, hex parsing, builtin-name ordering, BTreeMap key order vs field order) -- string and regex code; the proof_parser and cli crates do not even build offline in this sandbox (anyhow / clap / regex are not in the registry), so no bounded stand-in either. Field-element strings >= P are reduced mod P by starknet-types-core (stated as the guard of the clauses).')

# C14 / C18: the five static layouts besides `recursive` (validate_public_input, verify_public_input)
_MID = ['layoutmid_' + _l for _l in MID_LAYOUTS]
PROPS['C14']['quick'] = ['core'] + _MID
PROPS['C14']['thorough'] = ['core'] + _MID

# quick tier: code that is selected by hash / Stone features is ALSO checked under the other features on every change
# (a change inside a cfg-false branch would otherwise be invisible to the quick check): the variant units verify only the
# modules that carry an obligation of the property, so this costs seconds
for _p in ('C04', 'C05'):
    PROPS[_p]['quick'] = list(dict.fromkeys(PROPS[_p]['quick'] + VARIANTS))
PROPS['C09']['quick'] = list(dict.fromkeys(PROPS['C09']['quick'] + ['core_blake2s_160_lsb_stone6']))
PROPS['C13']['quick'] = list(dict.fromkeys(PROPS['C13']['quick'] + ['core_keccak_160_lsb_stone6']))

# C16: the eval_oods_polynomial wrappers of the six other layouts (argument order of the DEEP evaluator call)
PROPS['C16']['quick'] = list(dict.fromkeys(PROPS['C16']['quick'] + ['autogen_dex', 'autogen_small', 'autogen_recursive_with_poseidon', 'autogen_starknet'] + _LIGHT))   # a change in any covered evaluator is seen by the quick check (about 2 min)
PROPS['C16']['thorough'] = list(dict.fromkeys(PROPS['C16']['thorough'] + _LIGHT))

# C11 ("trace column counts equal the layout's"): the column-count getters of every layout; C18: public-input functions of every layout
PROPS['C11']['quick'] = list(dict.fromkeys(PROPS['C11']['quick'] + _LIGHT))
PROPS['C11']['thorough'] = list(dict.fromkeys(PROPS['C11']['thorough'] + _LIGHT))
PROPS['C18']['quick'] = list(dict.fromkeys(PROPS['C18']['quick'] + _MID))
# C15 / C01: the eval_composition_polynomial wrapper of every static layout (call sites of the two closed-form boundary values, and
# every other global value handed to the constraint evaluator) - the mid units contain the light units
PROPS['C15']['quick'] = ['core'] + _MID
PROPS['C15']['thorough'] = ['core'] + _MID
PROPS['C01']['quick'] = ['core'] + _MID
PROPS['C01']['thorough'] = ['core'] + _MID
PROPS['C09']['quick'] = list(dict.fromkeys(PROPS['C09']['quick']))

# C01: the DEEP evaluators bind every out-of-domain value to its own coefficient (typing contract of the autogen units)
_AUTOGEN = ['autogen_recursive', 'autogen_dex', 'autogen_small', 'autogen_recursive_with_poseidon', 'autogen_starknet']
PROPS['C01']['quick'] = list(dict.fromkeys(PROPS['C01']['quick'] + _AUTOGEN))
PROPS['C01']['thorough'] = list(dict.fromkeys(PROPS['C01']['thorough'] + _AUTOGEN + ['autogen_starknet_with_keccak']))

# thorough tier: every hash / stone variant of the core unit for the properties whose code is cfg-dependent
for _p in ('C01', 'C02', 'C04', 'C05', 'C07', 'C09', 'C13', 'C17', 'C18'):
    PROPS[_p]['thorough'] = list(dict.fromkeys(PROPS[_p]['thorough'] + VARIANTS))
PROPS['C18']['thorough'] = list(dict.fromkeys(PROPS['C18']['thorough'] + _LIGHT + _MID + ['autogen_recursive', 'autogen_dex', 'autogen_small', 'autogen_recursive_with_poseidon', 'autogen_starknet']))

NOT_APPLICABLE = {
    'C03': 'quantifies over outputs of an external prover (25 shipped Stone proofs) and over compile-time builds; only running each proof through each build decides it, which is a test matrix, not a contract (DESIGN.md C03)',
}
for _i in range(1, 20):
    _p = 'C%02d' % _i
    if _p not in PROPS and _p not in NOT_APPLICABLE:
        NOT_APPLICABLE[_p] = 'check not built yet in this session (planned in DESIGN.md section 4); not claimed'
