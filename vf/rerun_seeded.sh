#!/bin/bash
# rerun_seeded.sh [name-prefix]: run the checks of every stored seeded change against a scratch copy with the change applied
# (never /repo itself), and rewrite seeded/RESULTS.tsv.  meta.json: "props" = properties whose checks are run.
cd /verif
out=seeded/RESULTS.tsv
tmp=$(mktemp)
for d in seeded/${1:-}*/; do
  n=$(basename $d)
  [ -f $d/patch.diff ] || continue
  props=$(python3 -c "import json;print(','.join(json.load(open('$d/meta.json')).get('props',[])))" 2>/dev/null)
  [ -z "$props" ] && continue
  res=$(vf/try_patch.sh $d/patch.diff $props 2>&1)
  line=$(echo "$res" | grep CHECKS | sed 's/CHECKS: //')
  how=$(echo "$res" | grep -E "^VIOLATION" | sed -E 's/.*obligations=([0-9]+)( failing-input=([^ ]*))?.*/\1:\3/' | tr '\n' ' ')
  und=$(echo "$res" | grep -E "^UNDECIDED" | head -1 | cut -c1-120)
  printf "%s\t%s\t%s\t%s\n" "$n" "$line" "$how" "$und" | tee -a $tmp
done
sort $tmp > $out; rm -f $tmp
