"""Token-level view of Rust source text (enough for slicing, not a parser).

Tokens are (kind, text, start, end, line) tuples:
  kind in {'id','life','num','str','chr','p','gon','goff'}
  'gon' / 'goff' are the explicit ghost markers  /*+*/  and  /*-*/  (template side only).
Comments and whitespace are dropped (doc comments included).
"""
import re
from collections import namedtuple

Tok = namedtuple('Tok', 'kind text start end line')

_ID = re.compile(r'[A-Za-z_][A-Za-z0-9_]*')
_NUM = re.compile(r'0[xX][0-9a-fA-F_]+[A-Za-z0-9_]*|0[bB][01_]+[A-Za-z0-9_]*|0[oO][0-7_]+[A-Za-z0-9_]*|[0-9][0-9_]*(\.[0-9][0-9_]*)?([eE][+-]?[0-9_]+)?[A-Za-z0-9_]*')
_MULTI = ('::', '->', '=>')


class TokError(Exception):
    pass


def tokenize(src):
    toks = []
    i = 0
    n = len(src)
    line = 1
    while i < n:
        c = src[i]
        if c == '\n':
            line += 1
            i += 1
            continue
        if c in ' \t\r':
            i += 1
            continue
        if src.startswith('//', i):
            j = src.find('\n', i)
            if j < 0:
                j = n
            i = j
            continue
        if src.startswith('/*', i):
            if src.startswith('/*+*/', i):
                toks.append(Tok('gon', '/*+*/', i, i + 5, line))
                i += 5
                continue
            if src.startswith('/*-*/', i):
                toks.append(Tok('goff', '/*-*/', i, i + 5, line))
                i += 5
                continue
            depth = 1
            j = i + 2
            while j < n and depth:
                if src.startswith('/*', j):
                    depth += 1
                    j += 2
                elif src.startswith('*/', j):
                    depth -= 1
                    j += 2
                else:
                    if src[j] == '\n':
                        line += 1
                    j += 1
            i = j
            continue
        # raw strings / byte strings
        m = re.match(r'b?r(#*)"', src[i:i + 40])
        if m and (c in 'br'):
            hashes = m.group(1)
            endpat = '"' + hashes
            j = src.find(endpat, i + m.end())
            if j < 0:
                raise TokError('unterminated raw string at line %d' % line)
            j += len(endpat)
            toks.append(Tok('str', src[i:j], i, j, line))
            line += src.count('\n', i, j)
            i = j
            continue
        if c == '"' or (c == 'b' and src.startswith('b"', i)):
            j = i + (2 if c == 'b' else 1)
            while j < n and src[j] != '"':
                if src[j] == '\\':
                    j += 1
                j += 1
            j += 1
            toks.append(Tok('str', src[i:j], i, j, line))
            line += src.count('\n', i, j)
            i = j
            continue
        if c == "'" or (c == 'b' and src.startswith("b'", i)):
            k = i + (1 if c == 'b' else 0)
            # char literal or lifetime
            m2 = re.match(r"'(\\.[^']*|[^'\\])'", src[k:k + 14])
            if m2:
                j = k + m2.end()
                toks.append(Tok('chr', src[i:j], i, j, line))
                i = j
                continue
            m3 = _ID.match(src, k + 1)
            if m3 and c == "'":
                toks.append(Tok('life', src[i:m3.end()], i, m3.end(), line))
                i = m3.end()
                continue
            raise TokError('bad quote at line %d' % line)
        m = _ID.match(src, i)
        if m:
            toks.append(Tok('id', m.group(0), i, m.end(), line))
            i = m.end()
            continue
        if c.isdigit():
            m = _NUM.match(src, i)
            j = m.end()
            # do not swallow '..' of a range:  0..n
            txt = src[i:j]
            if '.' in txt and src.startswith('..', i + txt.index('.')):
                j = i + txt.index('.')
            elif '.' in txt and not txt.split('.')[1][:1].isdigit():
                j = i + txt.index('.')
            toks.append(Tok('num', src[i:j], i, j, line))
            i = j
            continue
        for mp in _MULTI:
            if src.startswith(mp, i):
                toks.append(Tok('p', mp, i, i + len(mp), line))
                i += len(mp)
                break
        else:
            toks.append(Tok('p', c, i, i + 1, line))
            i += 1
    return toks


OPEN = {'(': ')', '[': ']', '{': '}'}
CLOSE = {')': '(', ']': '[', '}': '{'}


def match_close(toks, i):
    """toks[i] is an opening bracket; return index of its matching close."""
    assert toks[i].kind == 'p' and toks[i].text in OPEN, (i, toks[i])
    depth = 0
    j = i
    while j < len(toks):
        t = toks[j]
        if t.kind == 'p':
            if t.text in OPEN:
                depth += 1
            elif t.text in CLOSE:
                depth -= 1
                if depth == 0:
                    return j
        j += 1
    raise TokError('unbalanced bracket opened at line %d' % toks[i].line)


def is_p(t, s):
    return t.kind == 'p' and t.text == s


def is_id(t, s=None):
    return t.kind == 'id' and (s is None or t.text == s)


def skip_attrs(toks, i):
    """Return (j, attrs) where attrs is a list of (start_idx, end_idx_exclusive) of outer/inner attributes at i."""
    attrs = []
    while i < len(toks) and is_p(toks[i], '#'):
        j = i + 1
        if j < len(toks) and is_p(toks[j], '!'):
            j += 1
        if j < len(toks) and is_p(toks[j], '['):
            e = match_close(toks, j)
            attrs.append((i, e + 1))
            i = e + 1
        else:
            break
    return i, attrs


def find_depth0(toks, i, end, texts):
    """first index j in [i,end) with toks[j] a punct in texts at bracket depth 0 (relative to i)."""
    depth = 0
    j = i
    while j < end:
        t = toks[j]
        if t.kind == 'p':
            if depth == 0 and t.text in texts:
                return j
            if t.text in OPEN:
                depth += 1
            elif t.text in CLOSE:
                depth -= 1
                if depth < 0:
                    return -1
        j += 1
    return -1


# ---------------------------------------------------------------- cfg evaluation

def eval_cfg(toks, i, end, features):
    """Evaluate cfg predicate tokens toks[i:end]."""
    val, j = _cfg_pred(toks, i, end, features)
    if j != end:
        raise TokError('cfg predicate trailing tokens at line %d' % toks[i].line)
    return val


def _cfg_pred(toks, i, end, features):
    t = toks[i]
    if is_id(t) and i + 1 < end and is_p(toks[i + 1], '('):
        e = match_close(toks, i + 1)
        args = []
        k = i + 2
        while k < e:
            v, k = _cfg_pred(toks, k, e, features)
            args.append(v)
            if k < e and is_p(toks[k], ','):
                k += 1
        if t.text == 'any':
            return any(args), e + 1
        if t.text == 'all':
            return all(args), e + 1
        if t.text == 'not':
            return (not args[0]), e + 1
        raise TokError('unknown cfg combinator ' + t.text)
    if is_id(t, 'feature') and is_p(toks[i + 1], '='):
        name = toks[i + 2].text.strip('"')
        return (name in features), i + 3
    if is_id(t, 'test'):
        return False, i + 1
    if is_id(t):
        # bare cfg flags (e.g. kani, verif guards): off
        if i + 1 < end and is_p(toks[i + 1], '='):
            return False, i + 3
        return False, i + 1
    raise TokError('cannot parse cfg predicate at line %d' % t.line)


def attr_cfg_value(toks, a, features):
    """a=(s,e) attribute token range; returns True/False for #[cfg(..)], None for any other attribute."""
    s, e = a
    j = s + 1
    if is_p(toks[j], '!'):
        j += 1
    # toks[j] == '['
    if is_id(toks[j + 1], 'cfg') and is_p(toks[j + 2], '('):
        ce = match_close(toks, j + 2)
        return eval_cfg(toks, j + 3, ce, features)
    return None


# ---------------------------------------------------------------- items

ITEM_KW = {'fn', 'const', 'static', 'struct', 'enum', 'impl', 'mod', 'trait', 'use', 'type', 'macro_rules', 'extern', 'union'}
QUALS = {'pub', 'unsafe', 'async', 'default', 'open', 'closed', 'spec', 'proof', 'exec', 'broadcast', 'uninterp', 'tracked', 'ghost', 'axiom'}

Item = namedtuple('Item', 'kind name start end attrs body container')
# start/end: token indices [start,end) including attributes; body: (open_idx, close_idx) for braces or None


def parse_items(toks, i, end, container=''):
    """Parse the item list in toks[i:end] (module or impl/trait body level)."""
    items = []
    while i < end:
        s = i
        i, attrs = skip_attrs(toks, i)
        if i >= end:
            break
        # qualifiers
        while i < end and is_id(toks[i]) and toks[i].text in QUALS:
            if toks[i].text == 'pub' and i + 1 < end and is_p(toks[i + 1], '('):
                i = match_close(toks, i + 1) + 1
            elif toks[i].text == 'const' :
                break
            else:
                i += 1
        if i >= end:
            break
        t = toks[i]
        if is_id(t, 'const') and i + 1 < end and is_id(toks[i + 1], 'fn'):
            i += 1
            t = toks[i]
        if is_id(t, 'extern') and toks[i + 1].kind == 'str':
            i += 2
            t = toks[i]
        if not (is_id(t) and t.text in ITEM_KW):
            if is_p(t, ';'):
                i += 1
                continue
            # macro invocation item:  name!( ... );  or name!{...}
            if is_id(t) and i + 1 < end and is_p(toks[i + 1], '!'):
                j = i + 2
                if is_id(toks[j]):
                    j += 1
                e = match_close(toks, j)
                i = e + 1
                if i < end and is_p(toks[i], ';'):
                    i += 1
                items.append(Item('macro_call', t.text, s, i, attrs, (j, e), container))
                continue
            raise TokError('cannot parse item at line %d near %r' % (t.line, t.text))
        kw = t.text
        if kw == 'fn':
            name = toks[i + 1].text
            j = find_depth0(toks, i, end, ('{', ';'))
            if is_p(toks[j], '{'):
                e = match_close(toks, j)
                items.append(Item('fn', name, s, e + 1, attrs, (j, e), container))
                i = e + 1
            else:
                items.append(Item('fn', name, s, j + 1, attrs, None, container))
                i = j + 1
        elif kw in ('const', 'static', 'type', 'use', 'extern'):
            k = i + 1
            if is_id(toks[k], 'mut'):
                k += 1
            name = toks[k].text
            j = find_depth0(toks, i, end, (';',))
            # const with block initialiser: find ';' at depth 0 handles braces via depth tracking
            items.append(Item(kw, name, s, j + 1, attrs, None, container))
            i = j + 1
        elif kw in ('struct', 'union'):
            name = toks[i + 1].text
            j = find_depth0(toks, i + 2, end, ('{', ';', '('))
            if is_p(toks[j], '{'):
                e = match_close(toks, j)
                items.append(Item('struct', name, s, e + 1, attrs, (j, e), container))
                i = e + 1
            elif is_p(toks[j], '('):
                e = match_close(toks, j)
                j2 = find_depth0(toks, e + 1, end, (';',))
                items.append(Item('struct', name, s, j2 + 1, attrs, (j, e), container))
                i = j2 + 1
            else:
                items.append(Item('struct', name, s, j + 1, attrs, None, container))
                i = j + 1
        elif kw == 'enum':
            name = toks[i + 1].text
            j = find_depth0(toks, i + 2, end, ('{',))
            e = match_close(toks, j)
            items.append(Item('enum', name, s, e + 1, attrs, (j, e), container))
            i = e + 1
        elif kw == 'macro_rules':
            name = toks[i + 2].text
            j = i + 3
            e = match_close(toks, j)
            i = e + 1
            if i < end and is_p(toks[i], ';'):
                i += 1
            items.append(Item('macro_rules', name, s, i, attrs, (j, e), container))
        elif kw in ('impl', 'trait', 'mod'):
            j = find_depth0(toks, i + 1, end, ('{', ';'))
            if is_p(toks[j], ';'):
                items.append(Item(kw, toks[i + 1].text, s, j + 1, attrs, None, container))
                i = j + 1
                continue
            e = match_close(toks, j)
            if kw == 'impl':
                name = impl_name(toks, i + 1, j)
            else:
                name = toks[i + 1].text
            it = Item(kw, name, s, e + 1, attrs, (j, e), container)
            items.append(it)
            i = e + 1
        else:
            raise TokError('unhandled item keyword %s' % kw)
    return items


def impl_name(toks, i, j):
    """Header tokens of an impl between 'impl' and '{' -> 'Type' or 'Trait@Type' (last path segments, generics dropped)."""
    # skip generic params <...>
    k = i
    if is_p(toks[k], '<'):
        depth = 0
        while k < j:
            if is_p(toks[k], '<'):
                depth += 1
            elif is_p(toks[k], '>'):
                depth -= 1
                if depth == 0:
                    k += 1
                    break
            k += 1
    # split at 'for' (depth 0 wrt <>), stop at 'where'
    segs = [[]]
    depth = 0
    while k < j:
        t = toks[k]
        if is_p(t, '<'):
            depth += 1
        elif is_p(t, '>') and not (k > 0 and is_p(toks[k - 1], '-')):
            depth -= 1
        if depth == 0 and is_id(t, 'for'):
            segs.append([])
        elif depth == 0 and is_id(t, 'where'):
            break
        else:
            segs[-1].append(t)
        k += 1

    def full(ts):
        # drop leading path:  a::b::C<D>  ->  C<D>   (only at angle depth 0)
        out = []
        d = 0
        for t in ts:
            if is_p(t, '<'):
                d += 1
            elif is_p(t, '>'):
                d -= 1
            if d == 0 and is_p(t, '::'):
                out = []
                continue
            out.append(t.text)
        return ''.join(out)

    if len(segs) == 1:
        return full(segs[0])
    return full(segs[0]) + '@' + full(segs[1])
