#!/usr/bin/env python3
"""Render seeded/RESULTS.tsv into DESIGN.md between the SEEDED-TABLE markers."""
import os, json, re
R = os.path.dirname(os.path.dirname(os.path.abspath(__file__)))
rows = []
for l in open(os.path.join(R, 'seeded', 'RESULTS.tsv')):
    p = l.rstrip('\n').split('\t')
    if len(p) < 2:
        continue
    name, checks = p[0], p[1]
    how = p[2] if len(p) > 2 else ''
    und = p[3] if len(p) > 3 else ''
    m = json.load(open(os.path.join(R, 'seeded', name, 'meta.json')))
    tgt = m.get('breaks_property', name[:3])[:3]
    res = dict(x.split(':rc=') for x in checks.split() if ':rc=' in x)
    t = res.get(tgt)
    verdict = {'1': 'caught', '0': 'MISSED', '2': 'undecided'}.get(t, '?')
    others = ', '.join('%s' % k for k, v in res.items() if k != tgt and v == '1')
    wit = ''
    mm = re.search(r'%s:(\d+):(\S*)' % tgt, how)
    if mm:
        wit = ('verifier: %s obligation(s)' % mm.group(1) if mm.group(1) != '0' else 'witness only') + ((', input ' + mm.group(2)) if mm.group(2) else '')
    rows.append('| %s | %s | %s | %s | %s | %s |' % (name, m.get('file') or '', tgt, verdict, wit, others))
tab = '| seeded change | file | target | target check | decided by | also reported by |\n|---|---|---|---|---|---|\n' + '\n'.join(rows)
n = len(rows); c = sum('| caught |' in r for r in rows); mi = sum('| MISSED |' in r for r in rows); u = sum('| undecided |' in r for r in rows)
tab += '\n\n%d changes: %d caught by the target property\'s check, %d undecided (exit 2), %d missed.' % (n, c, u, mi)
p = os.path.join(R, 'DESIGN.md')
s = open(p).read()
a = s.index('<!--SEEDED-TABLE-->') + len('<!--SEEDED-TABLE-->')
b = s.index('<!--/SEEDED-TABLE-->')
open(p, 'w').write(s[:a] + '\n' + tab + '\n' + s[b:])
print(n, c, u, mi)
