#!/bin/bash
# benign2: structural behaviour-preserving rewrites; expected: no VIOLATION (affected property exit 2 or 0, others 0)
cd "$(dirname "$(readlink -f "$0")")/.."
declare -A P=( [01]=C04 [02]=C05 [03]=C07,C06 [04]=C07 [05]=C06,C07 [06]=C07 [07]=C11 [08]=C10 [09]=C16 [10]=C13 [11]=C15 [12]=C15 )
for f in benign2/*.diff; do
  n=$(basename $f | cut -c1-2)
  echo "=== $f"
  vf/try_patch.sh $f ${P[$n]},C18 2>&1 | grep -E "^VIOLATION|CHECKS|PATCH" | cut -c1-300
done
