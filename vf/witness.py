#!/usr/bin/env python3
"""Differential witness search: concrete inputs on which the tree under check behaves differently from the PROVEN BASELINE.

The baseline is the repository commit named in vf/BASELINE_COMMIT: the commit on which every obligation of every unit is
discharged (the evidence files are produced on it).  For a function whose contract is functional (result == spec(args), or
`is_ok <==> predicate`), the baseline's result IS the specification's result, so an input on which the current tree returns
something else is a concrete counterexample to that contract -- replayed against the real code, not against a model.

witness/diff/diff_harness.rs is dropped into scratch copies of both trees (crates/stark/src/tests/), built and run with the
same fixed-seed inputs; the printed lines are compared.  Nothing is written to /repo.

Used by run.py only AFTER the verifier has failed an obligation or could not re-establish one on changed code:
  * to attach a failing input to a VIOLATION (otherwise the line ends with no-failing-input-found),
  * to decide an UNDECIDED run (ghost text no longer applies to rewritten code) when the behaviour provably changed.
It is never run on a tree whose regions are all unchanged and verified.
"""
import hashlib
import json
import os
import re
import shutil
import subprocess
import sys
import tempfile
import time

VF = os.path.dirname(os.path.abspath(__file__))
ROOT = os.path.dirname(VF)
HARNESS = os.path.join(ROOT, 'witness', 'diff', 'diff_harness.rs')
CACHE = os.path.join(ROOT, 'build', 'witness_cache')
BASE_GIT = os.environ.get('VERIF_BASE_GIT', '/repo')

# harness item -> (properties whose contracts determine the printed value, functions exercised)
ITEMS = {
    'transcript': (['C08'], 'Transcript::{read_*_from_prover, random_felt_to_prover}'),
    'verify_pow': (['C09'], 'verify_pow'),
    'pow_config': (['C09', 'C11'], 'pow Config::validate'),
    'pow_commit': (['C09', 'C08'], 'pow UnsentCommitment::commit'),
    'stark_config': (['C11', 'C01', 'C17'], 'StarkConfig::validate'),
    'fri_config': (['C11', 'C01', 'C18'], 'fri Config::validate'),
    'trace_config': (['C11', 'C02'], 'trace Config::validate'),
    'vector_config': (['C11', 'C02'], 'vector Config::validate'),
    'vector_root': (['C04', 'C05'], 'compute_root_from_queries / hash_friendly_unfriendly'),
    'vector_decommit': (['C04', 'C05', 'C07'], 'vector_commitment_decommit'),
    'table_decommit': (['C05', 'C06', 'C07'], 'table_decommit / generate_vector_queries'),
    'fri_group': (['C06'], 'get_fri_group'),
    'fri_formula': (['C06'], 'fri_formula'),
    'next_layer': (['C06', 'C07'], 'compute_next_layer / compute_coset_elements'),
    'last_layer': (['C06', 'C07'], 'verify_last_layer / horner_eval'),
    'fri_verify': (['C07', 'C06', 'C01', 'C02'], 'fri_verify / fri_verify_layers'),
    'fri_validate_unsent': (['C18', 'C07', 'C02'], 'fri_validate_unsent_commitment'),
    'fri_commit': (['C08'], 'fri_commit'),
    'generate_queries': (['C10', 'C08', 'C17'], 'generate_queries'),
    'queries_to_points': (['C10'], 'queries_to_points'),
    'domains': (['C12', 'C10'], 'StarkDomains::new'),
    'get_hash': (['C13'], 'PublicInput::get_hash'),
    'dynamic_params': (['C13', 'C19'], 'From<Vec<usize>> for DynamicParams / From<DynamicParams> for Vec<usize>'),
    'page_product': (['C15'], 'Page::get_product'),
    'memory_ratio': (['C15'], 'get_public_memory_product(_ratio) / get_continuous_pages_product'),
    'diluted': (['C15', 'C17'], 'get_diluted_product'),
    'validate_public_input': (['C14'], 'recursive Layout::validate_public_input'),
    'verify_public_input': (['C14', 'C18'], 'recursive Layout::verify_public_input'),
    'eval_composition': (['C15', 'C18', 'C01'], 'recursive Layout::eval_composition_polynomial'),
    'stark_commit': (['C08', 'C01', 'C02'], 'stark_commit'),
    'proof_verify': (['C01', 'C02', 'C18'], 'StarkProof::verify'),
}


def baseline_commit():
    p = os.path.join(VF, 'BASELINE_COMMIT')
    return open(p).read().strip() if os.path.exists(p) else None


def tree_key(repo):
    h = hashlib.sha256()
    for sub in ('crates',):
        for dp, dn, fn in sorted(os.walk(os.path.join(repo, sub))):
            dn.sort()
            if '/target' in dp or '/.git' in dp:
                continue
            for f in sorted(fn):
                if f.endswith('.rs') or f.endswith('.toml'):
                    p = os.path.join(dp, f)
                    h.update(os.path.relpath(p, repo).encode())
                    h.update(open(p, 'rb').read())
    h.update(open(HARNESS, 'rb').read())
    return h.hexdigest()[:20]


def run_harness(src_dir, timeout=240):
    """src_dir: a scratch copy of a repository tree.  Returns (status, lines)."""
    t = os.path.join(src_dir, 'crates', 'stark', 'src', 'tests')
    shutil.copy(HARNESS, os.path.join(t, 'diff_harness.rs'))
    with open(os.path.join(t, 'mod.rs'), 'a') as f:
        f.write('\npub mod diff_harness;\n')
    env = dict(os.environ, CARGO_TARGET_DIR=os.path.join(src_dir, 'target'), CARGO_NET_OFFLINE='true')
    b = subprocess.run(['cargo', 'test', '-p', 'swiftness_stark', '--offline', '--no-run'], cwd=src_dir, env=env, capture_output=True, text=True)
    if b.returncode != 0:
        return 'build-failed: ' + ' | '.join([l for l in b.stderr.split('\n') if l.startswith('error')][:3]), []
    # own process group: on a timeout the test binary (a grandchild that may loop forever on the tree under check) is killed too
    import signal
    pr = subprocess.Popen(['cargo', 'test', '-p', 'swiftness_stark', '--offline', 'witness_diff_all', '--', '--nocapture', '--test-threads', '1'],
                          cwd=src_dir, env=env, stdout=subprocess.PIPE, stderr=subprocess.PIPE, text=True, start_new_session=True)
    try:
        out, _err = pr.communicate(timeout=timeout)
        status = 'ok' if pr.returncode == 0 else 'aborted rc=%d' % pr.returncode
    except subprocess.TimeoutExpired:
        try:
            os.killpg(pr.pid, signal.SIGKILL)
        except OSError:
            pass
        out, _err = pr.communicate()
        out = out or ''
        status = 'timeout after %ds' % timeout
    return status, [l for l in out.split('\n') if l.startswith('W|') or l.startswith('B|')]


def parse(lines):
    res, order, begun = {}, [], None
    for l in lines:
        p = l.split('|', 3)
        if p[0] == 'B' and len(p) >= 3:
            begun = (p[1], p[2])
        elif p[0] == 'W' and len(p) == 4:
            res[(p[1], p[2])] = p[3]
            order.append((p[1], p[2]))
            begun = None
    return res, order, begun


def verdict(s):
    """Output with every error payload erased (`Err(..)` -> ERR): what a contract of the form `is_ok <==> P`, `Ok value ==
    spec` determines.  Differences that survive this are verdict-level; the others are detail-level (error payloads)."""
    out = []
    i = 0
    while i < len(s):
        if s.startswith('Err(', i):
            d, j = 0, i + 3
            while j < len(s):
                if s[j] == '(':
                    d += 1
                elif s[j] == ')':
                    d -= 1
                    if d == 0:
                        break
                j += 1
            out.append('ERR')
            i = j + 1
        else:
            out.append(s[i])
            i += 1
    return ''.join(out)


def search(repo):
    """Returns dict(status=..., baseline=<commit>, diffs=[{item, case, props, functions, baseline, current}], wall=s)."""
    t0 = time.time()
    os.makedirs(CACHE, exist_ok=True)
    key = tree_key(repo) + '_' + hashlib.sha256((json.dumps(ITEMS, sort_keys=True) + open(HARNESS).read()).encode()).hexdigest()[:10]   # results depend on the item table and the harness too
    cp = os.path.join(CACHE, 'cur_%s.json' % key)
    if os.path.exists(cp):
        return json.load(open(cp))
    commit = baseline_commit()
    if not commit:
        return dict(status='no baseline commit recorded', diffs=[])
    work = tempfile.mkdtemp(prefix='wit_', dir='/tmp')
    try:
        # ---- baseline output (cached per commit + harness)
        hh = hashlib.sha256(open(HARNESS, 'rb').read()).hexdigest()[:12]
        bp = os.path.join(CACHE, 'base_%s_%s.json' % (commit[:12], hh))
        if os.path.exists(bp):
            base = json.load(open(bp))
        else:
            a = os.path.join(work, 'base')
            os.makedirs(a)
            ar = subprocess.run('git -C %s archive %s | tar -x -C %s' % (BASE_GIT, commit, a), shell=True, capture_output=True, text=True)
            if ar.returncode != 0 or not os.path.exists(os.path.join(a, 'crates')):
                return dict(status='baseline commit %s not available in %s' % (commit[:12], BASE_GIT), diffs=[])
            st, lines = run_harness(a)
            if st != 'ok':
                return dict(status='baseline harness run: ' + st, diffs=[])
            base = dict(lines=lines)
            json.dump(base, open(bp, 'w'))
        # ---- current tree
        b = os.path.join(work, 'cur')
        subprocess.run(['rsync', '-a', '--exclude', 'target', '--exclude', '.git', repo.rstrip('/') + '/', b + '/'], check=True)
        st, lines = run_harness(b)
        bres, border, _ = parse(base['lines'])
        cres, _, hung = parse(lines)
        diffs = []
        if st.startswith('build-failed'):
            out = dict(status='harness does not build on the tree under check (%s)' % st, baseline=commit, diffs=[], wall=round(time.time() - t0, 1))
            json.dump(out, open(cp, 'w'))
            return out
        for k in border:
            if k[0] == 'done':
                continue
            props, fns = ITEMS.get(k[0], ([], '?'))
            props = list(props)
            if k in cres:
                if cres[k] != bres[k]:
                    if cres[k] == 'PANIC' and 'C18' not in props:
                        props.append('C18')
                    lvl = 'verdict' if verdict(cres[k]) != verdict(bres[k]) else 'detail'
                    diffs.append(dict(item=k[0], case=k[1], level=lvl, props=props, functions=fns, baseline=bres[k][:600], current=cres[k][:600]))
            elif hung == k:
                kind = 'DID NOT TERMINATE (%s)' % st if st.startswith('timeout') else 'PROCESS ABORTED (%s)' % st
                pp = props + [x for x in (['C17'] if st.startswith('timeout') else ['C18']) if x not in props]
                diffs.append(dict(item=k[0], case=k[1], level='verdict', props=pp, functions=fns, baseline=bres[k][:600], current=kind))
        out = dict(status='ok' if st == 'ok' else 'current run: ' + st, baseline=commit, cases=len(border), diffs=diffs, wall=round(time.time() - t0, 1))
        json.dump(out, open(cp, 'w'))
        return out
    finally:
        shutil.rmtree(work, ignore_errors=True)


if __name__ == '__main__':
    r = search(sys.argv[1] if len(sys.argv) > 1 else os.environ.get('VERIF_REPO', '/repo'))
    print(json.dumps(dict(r, diffs=r['diffs'][:10]), indent=1)[:6000])
    print(len(r['diffs']), 'differing cases')
