#!/usr/bin/env python3
"""Generate templates/cli/transform.rs: one annotated //@repo region per `impl TransformTo<..> for ..` of cli/src/transform.rs.

The executable text of every region is the repository's (printed by the same normaliser the assembler uses); this script
only adds the ghost text, from the table below: for every field of the verifier-side struct, how it must relate to the
parser-side field of the same name (property C19: "exactly the values recorded in the file, in stream order").
Run by hand when the annotated baseline is refreshed; the assembler re-checks the executable text on every run.
"""
import os, re, sys
sys.path.insert(0, os.path.dirname(os.path.abspath(__file__)))
import assemble as A
import units as U
import rules

# kinds: sub  -> self.f.same_as(r.f)            (nested struct, its own impl's contract)
#        u32  -> r.f@ == self.f as nat          (u32 -> Felt)
#        big  -> self.f.v@ < P ==> r.f@ == self.f.v@   (BigUint -> Felt; starknet-types-core reduces mod P)
#        vbig / vu32 / vsub(parser type, verifier type): element-wise, same length, same order
IMPLS = [
    ('TransformTo<StarkProofVerifier>@StarkProof', 'StarkProof', 'StarkProofVerifier',
     [('config', 'sub'), ('public_input', 'sub'), ('unsent_commitment', 'sub'), ('witness', 'sub')]),
    ('TransformTo<StarkConfigVerifier>@StarkConfig', 'StarkConfig', 'StarkConfigVerifier',
     [('traces', 'sub'), ('composition', 'sub'), ('fri', 'sub'), ('proof_of_work', 'sub'), ('log_trace_domain_size', 'u32'),
      ('n_queries', 'u32'), ('log_n_cosets', 'u32'), ('n_verifier_friendly_commitment_layers', 'u32')]),
    ('TransformTo<PowConfigVerifier>@ProofOfWorkConfig', 'ProofOfWorkConfig', 'PowConfigVerifier',
     [('n_bits', 'raw:self.n_bits < 256 ==> r.n_bits as nat == self.n_bits as nat')]),
    ('TransformTo<FriConfigVerifier>@FriConfig', 'FriConfig', 'FriConfigVerifier',
     [('log_input_size', 'u32'), ('n_layers', 'u32'), ('inner_layers', 'vsub|stark_proof::TableCommitmentConfig|TableConfigVerifier'),
      ('fri_step_sizes', 'vu32'), ('log_last_layer_degree_bound', 'u32')]),
    ('TransformTo<TraceConfigVerifier>@TracesConfig', 'TracesConfig', 'TraceConfigVerifier', [('original', 'sub'), ('interaction', 'sub')]),
    ('TransformTo<TableConfigVerifier>@TableCommitmentConfig', 'TableCommitmentConfig', 'TableConfigVerifier', [('n_columns', 'u32'), ('vector', 'sub')]),
    ('TransformTo<VectorConfigVerifier>@VectorCommitmentConfig', 'VectorCommitmentConfig', 'VectorConfigVerifier',
     [('height', 'u32'), ('n_verifier_friendly_commitment_layers', 'u32')]),
    ('TransformTo<PublicInputVerifier>@PublicInput', 'PublicInput', 'PublicInputVerifier',
     [('log_n_steps', 'u32'), ('range_check_min', 'u32'), ('range_check_max', 'u32'), ('layout', 'big'),
      ('dynamic_params', 'raw:dyn_same(self.dynamic_params, r.dynamic_params)'),
      ('segments', 'vsub|stark_proof::SegmentInfo|SegmentInfoVerifier'), ('padding_addr', 'u32'), ('padding_value', 'big'),
      ('main_page', 'raw:vsame(self.main_page@, r.main_page.0@)'),
      ('continuous_page_headers', 'raw:headers_same(self.continuous_page_headers@, r.continuous_page_headers@)')]),
    ('TransformTo<SegmentInfoVerifier>@SegmentInfo', 'SegmentInfo', 'SegmentInfoVerifier', [('begin_addr', 'u32'), ('stop_ptr', 'u32')]),
    ('TransformTo<AddrValue>@PubilcMemoryCell', 'PubilcMemoryCell', 'AddrValue', [('address', 'u32'), ('value', 'big')]),
    ('TransformTo<StarkUnsentCommitmentVerifier>@StarkUnsentCommitment', 'StarkUnsentCommitment', 'StarkUnsentCommitmentVerifier',
     [('traces', 'sub'), ('composition', 'big'), ('oods_values', 'vbig'), ('fri', 'sub'), ('proof_of_work', 'sub')]),
    ('TransformTo<TraceUnsentCommitmentVerifier>@TracesUnsentCommitment', 'TracesUnsentCommitment', 'TraceUnsentCommitmentVerifier',
     [('original', 'big'), ('interaction', 'big')]),
    ('TransformTo<FriUnsentCommitmentVerifier>@FriUnsentCommitment', 'FriUnsentCommitment', 'FriUnsentCommitmentVerifier',
     [('last_layer_coefficients', 'vbig'), ('inner_layers', 'vbig')]),
    ('TransformTo<PowUnsentCommitmentVerifier>@ProofOfWorkUnsentCommitment', 'ProofOfWorkUnsentCommitment', 'PowUnsentCommitmentVerifier',
     [('nonce', 'raw:0 < self.nonce.v@ < 0x1_0000_0000_0000_0000 ==> r.nonce as nat == self.nonce.v@')]),
    ('TransformTo<StarkWitnessVerifier>@StarkWitness', 'StarkWitness', 'StarkWitnessVerifier',
     [('traces_decommitment', 'sub'), ('traces_witness', 'sub'), ('composition_decommitment', 'sub'), ('composition_witness', 'sub'), ('fri_witness', 'sub')]),
    ('TransformTo<TraceDecommitmentVerifier>@TracesDecommitment', 'TracesDecommitment', 'TraceDecommitmentVerifier', [('original', 'sub'), ('interaction', 'sub')]),
    ('TransformTo<TableDecommitmentVerifier>@TableDecommitment', 'TableDecommitment', 'TableDecommitmentVerifier', [('values', 'vbig')]),
    ('TransformTo<TraceWitnessVerifier>@TracesWitness', 'TracesWitness', 'TraceWitnessVerifier', [('original', 'sub'), ('interaction', 'sub')]),
    ('TransformTo<TableCommitmentWitnessVerifier>@TableCommitmentWitness', 'TableCommitmentWitness', 'TableCommitmentWitnessVerifier', [('vector', 'sub')]),
    ('TransformTo<VectorCommitmentWitnessVerifier>@VectorCommitmentWitness', 'VectorCommitmentWitness', 'VectorCommitmentWitnessVerifier', [('authentications', 'vbig')]),
    ('TransformTo<FriWitnessVerifier>@FriWitness', 'FriWitness', 'FriWitnessVerifier', [('layers', 'vsub|stark_proof::FriLayerWitness|LayerWitness')]),
    ('TransformTo<LayerWitness>@FriLayerWitness', 'FriLayerWitness', 'LayerWitness', [('leaves', 'vbig'), ('table_witness', 'sub')]),
    ('TransformTo<TableCommitmentWitnessVerifier>@TableCommitmentWitnessFlat', 'TableCommitmentWitnessFlat', 'TableCommitmentWitnessVerifier', [('vector', 'sub')]),
    ('TransformTo<VectorCommitmentWitnessVerifier>@VectorCommitmentWitnessFlat', 'VectorCommitmentWitnessFlat', 'VectorCommitmentWitnessVerifier', [('authentications', 'vbig')]),
]


def rel(kind, f):
    if kind == 'sub':
        return 'self.%s.same_as(r.%s)' % (f, f)
    if kind == 'u32':
        return 'r.%s@ == self.%s as nat' % (f, f)
    if kind == 'big':
        return 'self.%s.v@ < P ==> r.%s@ == self.%s.v@' % (f, f, f)
    if kind == 'vbig':
        return 'big_same(self.%s@, r.%s@)' % (f, f)
    if kind == 'vu32':
        return 'u32_same(self.%s@, r.%s@)' % (f, f)
    if kind.startswith('vsub'):
        return 'vsame(self.%s@, r.%s@)' % (f, f)
    if kind.startswith('raw:'):
        return kind[4:]
    raise ValueError(kind)


def skeleton(key, rls):
    src, toks, item = A.locate('cli/src/transform.rs', 'impl', key, U.DEFAULT_FEATURES)
    log = []
    e = A.normalize(toks, item.start, item.end, U.DEFAULT_FEATURES, 'swiftness_cli', log)
    for r in rls:
        e = rules.apply(r, e, log)
    lines = src.split('\n')
    out, buf, cur, prev = [], '', None, None
    for t in e:
        if t.line != cur:
            if cur is not None:
                out.append(buf)
            ind = re.match(r'\s*', lines[t.line - 1]).group(0)
            buf = ind + t.text
            cur = t.line
        else:
            glue = prev is not None and prev.end == t.start
            nospace = t.text in (',', ';', ')', ']', '.', '?', '::') or (prev is not None and prev.text in ('(', '[', '.', '::', '&', '!', '*') and prev.kind == 'p') or t.text in ('(', '[') and prev is not None and prev.kind == 'id'
            buf += ('' if glue or nospace else ' ') + t.text
        prev = t
    out.append(buf)
    return '\n'.join(out)


def main():
    o = []
    for key, pty, vty, fields in IMPLS:
        rls = []
        for f, k in fields:
            if k[0] == 'v' or f == 'main_page':
                rls.append('H_vmap:self.' + f)
        if pty == 'PublicInput':
            rls += ['H_dyn_values', 'H_dyn_from']
        sk = skeleton(key, rls)
        # signature + contract
        ens = ['            %s, // [C19:%s-carried-exactly]' % (rel(k, f), f) for f, k in fields]
        sk = sk.replace('fn transform_to(self) -> %s {' % vty,
                        'fn transform_to(self) -> (r: %s)\n        ensures\n%s\n    {' % (vty, '\n'.join(ens)), 1)
        # the trait-level relation (ghost item of the impl)
        body = ' && '.join('(%s)' % rel(k, f) for f, k in fields)
        sk = sk.replace('{\n', '{\n    /*+*/open spec fn same_as(self, r: %s) -> bool { %s }/*-*/\n' % (vty, body), 1)
        # closures
        for f, k in fields:
            if k == 'vbig':
                sk = re.sub(r'vec_map_g\(self\.%s,\s*\|x\|\s*x\.into\(\)\s*\)' % f,
                            'vec_map_g(self.%s, |x/*+*/: BigUint/*-*/| /*+*/-> (o: Felt) ensures x.v@ < P ==> o@ == x.v@ {/*-*/ x.into() /*+*/}/*-*/)' % f, sk)
            elif k == 'vu32':
                sk = re.sub(r'vec_map_g\(self\.%s,\s*\|x\|\s*x\.into\(\)\s*\)' % f,
                            'vec_map_g(self.%s, |x/*+*/: u32/*-*/| /*+*/-> (o: Felt) ensures o@ == x as nat {/*-*/ x.into() /*+*/}/*-*/)' % f, sk)
            elif k.startswith('vsub') or f == 'main_page':
                pt, vt = (k.split('|')[1:] if k.startswith('vsub') else ('stark_proof::PubilcMemoryCell', 'AddrValue'))
                sk = re.sub(r'vec_map_g\(self\.%s,\s*\|x\|\s*x\.transform_to\(\)\s*\)' % f,
                            'vec_map_g(self.%s, |x/*+*/: %s/*-*/| /*+*/-> (o: %s) ensures x.same_as(o) {/*-*/ x.transform_to() /*+*/}/*-*/)' % (f, pt, vt), sk)
        if pty == 'ProofOfWorkConfig':
            sk = sk.replace('        PowConfigVerifier { n_bits: self.n_bits as u8 }',
                            '        proof { assert(self.n_bits < 256); } // [C19:a-difficulty-above-255-is-an-error-not-truncated]\n        PowConfigVerifier { n_bits: self.n_bits as u8 }')
        if pty == 'ProofOfWorkUnsentCommitment':
            sk = sk.replace('        PowUnsentCommitmentVerifier { nonce: self.nonce.to_u64_digits()[0] }',
                            '        proof { assert(self.nonce.v@ < 0x1_0000_0000_0000_0000); } // [C19:a-nonce-above-64-bits-is-an-error-not-truncated]\n        proof { let n = self.nonce.v@; if n > 0 { assert(digits64(n) == seq![(n % 0x1_0000_0000_0000_0000) as u64] + digits64(n / 0x1_0000_0000_0000_0000)); assert(digits64(n)[0] == n as u64); } }\n        PowUnsentCommitmentVerifier { nonce: self.nonce.to_u64_digits()[0] }')
        if pty == 'PublicInput':
            sk = sk.replace('                Some(crate::swiftness_air::dynamic::dynamic_params_from(params))',
                            '                proof { assert(params@.len() == 340); } // [C19:a-wrong-number-of-dynamic-params-is-an-error-not-a-panic]\n                Some(crate::swiftness_air::dynamic::dynamic_params_from(params))')
            assert 'a-wrong-number-of-dynamic-params' in sk
        o.append('//@repo cli/src/transform.rs impl %s props=C19 implicit=C19%s' % (key, (' rules=' + ','.join(rls)) if rls else ''))
        o.append(sk)
        o.append('//@end')
    open(os.path.join(U.VF, 'templates', 'cli', 'transform_impls.rs'), 'w').write('\n'.join(o) + '\n')
    print('wrote', len(IMPLS), 'regions')


if __name__ == '__main__':
    main()
