#!/bin/bash
# seeded_verify.sh <name> <dir with patch.diff demo.diff NOTES.md> <props,comma>
# Confirms a seeded change independently (fresh worktree): demo passes on the original code, the pinned suite passes with the
# change, the demo fails with the change.  Then runs the checks of <props> against a scratch copy with the change applied.
set -u
name=$1; src=$2; props=$3
wt=/tmp/sv_$name
rm -rf $wt; git -C /repo worktree prune; git -C /repo worktree add -q --detach $wt HEAD || exit 3
export CARGO_TARGET_DIR=$wt/target
cd $wt
git apply $src/demo.diff || { echo "demo.diff does not apply"; exit 3; }
demo_tests=$(git status --porcelain | grep -o '[a-z_]*demo[a-z_]*\.rs' | sed 's/\.rs//' | head -1)
echo "== demo on original code"
cargo test --workspace --offline 2>&1 | grep -E "^test result|FAILED|failed" | tee /tmp/sv_$name.orig.log | tail -8
orig_fail=$(grep -c "FAILED\|[1-9][0-9]* failed" /tmp/sv_$name.orig.log)
git apply $src/patch.diff || { echo "patch.diff does not apply"; exit 3; }
echo "== suite + demo with the change"
cargo test --workspace --offline --no-fail-fast 2>&1 | grep -E "^test result|^test .*FAILED|panicked at" | tee /tmp/sv_$name.mut.log | tail -12
mut_failed=$(grep -E "^test .*FAILED" /tmp/sv_$name.mut.log | sed 's/ \.\.\. FAILED//' | tr '\n' ';')
echo "orig_fail_lines=$orig_fail  failing_with_change=$mut_failed"
rm -rf $wt/target
# run checks against a scratch copy with only the source change
rm -rf /tmp/rm_$name; mkdir -p /tmp/rm_$name && rsync -a --exclude target --exclude .git /repo/ /tmp/rm_$name/ && (cd /tmp/rm_$name && git init -q 2>/dev/null; patch -p1 -s < $src/patch.diff) || echo "PATCH FAILED on scratch copy"
mkdir -p /verif/seeded/$name
cp $src/patch.diff $src/demo.diff /verif/seeded/$name/
[ -f $src/NOTES.md ] && cp $src/NOTES.md /verif/seeded/$name/NOTES.md
res=""
for p in ${props//,/ }; do
  out=$(cd /verif && VERIF_REPO=/tmp/rm_$name ./check $p 2>&1); rc=$?
  echo "$out" | grep -E "VIOLATION|FAILED-OBLIGATION|UNDECIDED|^OK" | head -6
  res="$res $p:rc=$rc"
done
echo "CHECKS:$res"
git -C /repo worktree remove --force $wt
rm -rf /tmp/rm_$name
rm -rf /verif/build/scratch_tmp_rm_$name
