#!/bin/bash
# rerun_some.sh <seed dir name>...: re-run the checks of the named seeded changes and replace their lines in seeded/RESULTS.tsv
ROOT=$(cd "$(dirname "$(readlink -f "$0")")/.." && pwd)
cd $ROOT
T=$(mktemp)
export ROOT T
printf "%s\n" "$@" | xargs -P 3 -I{} bash -c '
 n={}; d=seeded/$n; [ -f $d/patch.diff ] || exit 0
 props=$(python3 -c "import json;print(\",\".join(json.load(open(\"$d/meta.json\")).get(\"props\",[])))" 2>/dev/null); [ -z "$props" ] && exit 0
 res=$($ROOT/vf/try_patch.sh $d/patch.diff $props 2>&1)
 line=$(echo "$res" | grep CHECKS | sed "s/CHECKS: //")
 how=$(echo "$res" | grep -E "^VIOLATION" | sed -E "s/.*property=(C[0-9]+).*obligations=([0-9]+)( failing-input=([^ ]*))?.*/\1:\2:\4/" | tr "\n" " ")
 und=$(echo "$res" | grep -E "^UNDECIDED" | head -1 | cut -c1-120)
 printf "%s\t%s\t%s\t%s\n" "$n" "$line" "$how" "$und" >> $T
'
python3 - "$T" <<'PY'
import sys
new={l.split('\t')[0]:l for l in open(sys.argv[1]) if l.strip()}
lines=[l for l in open('seeded/RESULTS.tsv') if l.strip() and l.split('\t')[0] not in new]
lines+=list(new.values())
open('seeded/RESULTS.tsv','w').write(''.join(sorted(lines)))
print('updated', sorted(new))
PY
rm -f $T
