#!/bin/bash
# rerun_seeded_par.sh [name-prefix]: run the checks of every stored seeded change against a scratch copy of /repo with the change
# applied (never /repo itself), 4 at a time; rewrites seeded/RESULTS.tsv.  meta.json "props" = properties whose checks are run.
ROOT=$(cd "$(dirname "$(readlink -f "$0")")/.." && pwd)
cd $ROOT
T=$(mktemp)
export ROOT T
ls -d seeded/${1:-}*/ | xargs -P 4 -I{} bash -c '
 d={}; n=$(basename $d); [ -f $d/patch.diff ] || exit 0
 props=$(python3 -c "import json;print(\",\".join(json.load(open(\"$d/meta.json\")).get(\"props\",[])))" 2>/dev/null); [ -z "$props" ] && exit 0
 res=$($ROOT/vf/try_patch.sh $d/patch.diff $props 2>&1)
 line=$(echo "$res" | grep CHECKS | sed "s/CHECKS: //")
 how=$(echo "$res" | grep -E "^VIOLATION" | sed -E "s/.*property=(C[0-9]+).*obligations=([0-9]+)( failing-input=([^ ]*))?.*/\1:\2:\4/" | tr "\n" " ")
 und=$(echo "$res" | grep -E "^UNDECIDED" | head -1 | cut -c1-120)
 printf "%s\t%s\t%s\t%s\n" "$n" "$line" "$how" "$und" >> $T
'
sort $T > seeded/RESULTS.tsv; rm -f $T
wc -l seeded/RESULTS.tsv
